package main

import (
	"context"
	"fmt"
	"os"
	"os/exec"
	"path/filepath"
	"strings"
	"sync"
	"time"
)

type SolveResult struct {
	Status  string // unsat (proved), sat (counterexample), unknown, timeout, error
	Solver  string
	TimeS   float64
	Output  string
	Model   string
	All     map[string]string // per-solver status
}

type solverSpec struct {
	name string
	args func(file string, timeoutS int) []string
}

var solvers = []solverSpec{
	{"z3-new", func(f string, t int) []string { return []string{"z3-new", fmt.Sprintf("-T:%d", t), f} }},
	{"cvc5", func(f string, t int) []string {
		return []string{"cvc5", fmt.Sprintf("--tlimit=%d", t*1000), "--produce-models", f}
	}},
	{"z3", func(f string, t int) []string { return []string{"z3", fmt.Sprintf("-T:%d", t), f} }},
}

var scratchDir string
var scratchOnce sync.Once

func scratch() string {
	scratchOnce.Do(func() {
		d, err := os.MkdirTemp("", "pverif-")
		if err != nil {
			panic(err)
		}
		scratchDir = d
	})
	return scratchDir
}

func cleanupScratch() {
	if scratchDir != "" {
		os.RemoveAll(scratchDir)
	}
}

var queryCtr int
var queryMu sync.Mutex

// Solve races the solvers on a query. which: subset of solver names ("" = all).
func Solve(query string, timeoutS int, which []string, needAll bool) *SolveResult {
	queryMu.Lock()
	queryCtr++
	id := queryCtr
	queryMu.Unlock()
	file := filepath.Join(scratch(), fmt.Sprintf("q%d.smt2", id))
	if err := os.WriteFile(file, []byte(query), 0o644); err != nil {
		return &SolveResult{Status: "error", Output: err.Error()}
	}
	defer os.Remove(file)
	ctx, cancel := context.WithCancel(context.Background())
	defer cancel()
	type one struct {
		name, status, out string
		t            float64
	}
	ch := make(chan one, len(solvers))
	nrun := 0
	for _, s := range solvers {
		if len(which) > 0 {
			found := false
			for _, w := range which {
				if w == s.name {
					found = true
				}
			}
			if !found {
				continue
			}
		}
		nrun++
		go func(s solverSpec) {
			args := s.args(file, timeoutS)
			start := time.Now()
			c, cc := context.WithTimeout(ctx, time.Duration(timeoutS+2)*time.Second)
			defer cc()
			cmd := exec.CommandContext(c, args[0], args[1:]...)
			out, _ := cmd.CombinedOutput()
			status := "unknown"
			first := ""
			for _, ln := range strings.Split(string(out), "\n") {
				ln = strings.TrimSpace(ln)
				if ln == "" || strings.HasPrefix(ln, "WARNING") {
					continue
				}
				first = ln
				break
			}
			switch {
			case first == "unsat":
				status = "unsat"
			case first == "sat":
				status = "sat"
			case first == "timeout" || strings.Contains(first, "timeout") || c.Err() != nil:
				status = "timeout"
			case first == "unknown":
				status = "unknown"
			default:
				status = "error"
			}
			ch <- one{s.name, status, string(out), time.Since(start).Seconds()}
		}(s)
	}
	res := &SolveResult{Status: "unknown", All: map[string]string{}}
	var firstErr string
	for i := 0; i < nrun; i++ {
		r := <-ch
		res.All[r.name] = r.status
		if r.status == "error" && firstErr == "" {
			firstErr = r.name + ": " + truncate(r.out, 600)
		}
		if r.status == "unsat" || r.status == "sat" {
			if res.Status != "unsat" && res.Status != "sat" {
				res.Status, res.Solver, res.TimeS, res.Output = r.status, r.name, r.t, r.out
				if r.status == "sat" {
					if i := strings.Index(r.out, "sat\n"); i >= 0 {
						res.Model = r.out[i+4:]
					}
				}
				if !needAll {
					cancel()
					// drain in background
					go func(k int) {
						for j := 0; j < k; j++ {
							<-ch
						}
					}(nrun - i - 1)
					return res
				}
			} else if r.status != res.Status {
				res.Output += fmt.Sprintf("\nSOLVER DISAGREEMENT: %s says %s, %s says %s", res.Solver, res.Status, r.name, r.status)
				res.Status = "error"
			}
		}
		if r.status == "timeout" && res.Status == "unknown" {
			res.Status = "timeout"
			res.TimeS = r.t
		}
	}
	if res.Status != "unsat" && res.Status != "sat" {
		all := true
		for _, s := range res.All {
			if s != "error" {
				all = false
			}
		}
		if all {
			res.Status = "error"
		}
		res.Output = firstErr
	}
	return res
}

func truncate(s string, n int) string {
	if len(s) <= n {
		return s
	}
	return s[:n] + "..."
}
