package main

// Arithmetic, comparison and conversion encodings shared by the SSA translator and
// the spec evaluator.

import (
	"fmt"
	"go/constant"
	"go/token"
	"go/types"
	"math"
	"math/big"
	"strings"

	"golang.org/x/tools/go/ssa"
)

func constantBool(c *ssa.Const) bool { return constant.BoolVal(c.Value) }
func constString(v constant.Value) string { return constant.StringVal(v) }
func constBig(v constant.Value) *big.Int {
	v = constant.ToInt(v)
	if v.Kind() != constant.Int {
		return big.NewInt(0)
	}
	if i, ok := constant.Int64Val(v); ok {
		return big.NewInt(i)
	}
	b, _ := new(big.Int).SetString(v.ExactString(), 10)
	if b == nil {
		return big.NewInt(0)
	}
	return b
}

func (e *Encoder) floatLit(v constant.Value, is32 bool) string {
	f, _ := constant.Float64Val(constant.ToFloat(v))
	return e.float64Lit(f, is32)
}

func (e *Encoder) float64Lit(f float64, is32 bool) string {
	if is32 {
		b := math.Float32bits(float32(f))
		return fmt.Sprintf("(fp #b%01b #b%08b #b%023b)", b>>31, (b>>23)&0xff, b&0x7fffff)
	}
	b := math.Float64bits(f)
	return fmt.Sprintf("(fp #b%01b #b%011b #b%052b)", b>>63, (b>>52)&0x7ff, b&0xfffffffffffff)
}

func (e *Encoder) ilitBig(n *big.Int) string {
	if n.Sign() < 0 {
		return "(- " + new(big.Int).Neg(n).String() + ")"
	}
	return n.String()
}

// convAxioms declares u2i/s2i/i2bv for width w with axioms that hold of the real conversions.
func (e *Encoder) convAxioms(w int) {
	M := pow2(w).String()
	H := pow2(w - 1).String()
	bv := fmt.Sprintf("(_ BitVec %d)", w)
	z := fmt.Sprintf("(_ bv0 %d)", w)
	decl := fmt.Sprintf("(declare-fun u2i%d (%s) Int)\n(declare-fun s2i%d (%s) Int)\n(declare-fun i2bv%d (Int) %s)", w, bv, w, bv, w, bv)
	ax := []string{
		fmt.Sprintf("(assert (forall ((x %s)) (! (and (<= 0 (u2i%d x)) (< (u2i%d x) %s) (= (i2bv%d (u2i%d x)) x)) :pattern ((u2i%d x)))))", bv, w, w, M, w, w, w),
		fmt.Sprintf("(assert (forall ((x %s)) (! (and (= (s2i%d x) (ite (bvslt x %s) (- (u2i%d x) %s) (u2i%d x))) (= (i2bv%d (s2i%d x)) x)) :pattern ((s2i%d x)))))", bv, w, z, w, M, w, w, w, w),
		fmt.Sprintf("(assert (forall ((n Int)) (! (= (u2i%d (i2bv%d n)) (mod n %s)) :pattern ((i2bv%d n)))))", w, w, M, w),
		fmt.Sprintf("(assert (forall ((x %s) (y %s)) (! (= (bvult x y) (< (u2i%d x) (u2i%d y))) :pattern ((u2i%d x) (u2i%d y)))))", bv, bv, w, w, w, w),
		fmt.Sprintf("(assert (forall ((x %s) (y %s)) (! (= (bvslt x y) (< (s2i%d x) (s2i%d y))) :pattern ((s2i%d x) (s2i%d y)))))", bv, bv, w, w, w, w),
		fmt.Sprintf("(assert (= (u2i%d %s) 0))", w, z),
		fmt.Sprintf("(assert (forall ((n Int)) (! (=> (and (<= 0 n) (< n %s)) (not (bvslt (i2bv%d n) %s))) :pattern ((i2bv%d n)))))", H, w, z, w),
	}
	e.addPre(fmt.Sprintf("conv%d", w), decl)
	e.addPre(fmt.Sprintf("u2i%d.ax", w), strings.Join(ax, "\n"))
}

func min64(a, b int64) int64 {
	if a < b {
		return a
	}
	return b
}

func pow2(k int) *big.Int { return new(big.Int).Lsh(big.NewInt(1), uint(k)) }

// uf declares (once) and applies an uninterpreted function.
func (e *Encoder) uf(name string, argSorts []string, resSort string, args ...string) string {
	key := "uf:" + name
	e.addPre(key, fmt.Sprintf("(declare-fun %s (%s) %s)", name, strings.Join(argSorts, " "), resSort))
	if len(args) == 0 {
		return name
	}
	return "(" + name + " " + strings.Join(args, " ") + ")"
}

// constIntOf: if term t is an integer literal in the current mode, return its value.
func (e *Encoder) litValue(t string) (*big.Int, bool) {
	if d, ok := curDefs[t]; ok && isLiteralTerm(d) {
		t = d
	}
	if strings.HasPrefix(t, "(_ bv") {
		var n string
		var w int
		if _, err := fmt.Sscanf(t, "(_ bv%s %d)", &n, &w); err == nil {
			b, ok := new(big.Int).SetString(n, 10)
			return b, ok
		}
		return nil, false
	}
	if strings.HasPrefix(t, "(- ") && strings.HasSuffix(t, ")") {
		b, ok := new(big.Int).SetString(t[3:len(t)-1], 10)
		if ok {
			return b.Neg(b), true
		}
		return nil, false
	}
	b, ok := new(big.Int).SetString(t, 10)
	return b, ok
}

// binop encodes x op y where both operands have (after conversion) type t (shifts: y any integer type).
func (e *Encoder) binop(op token.Token, x, y string, t types.Type, yt types.Type) (string, error) {
	u := t.Underlying()
	b, isBasic := u.(*types.Basic)
	switch op {
	case token.EQL, token.NEQ:
		var eq string
		switch {
		case isBasic && b.Info()&types.IsFloat != 0:
			eq = fmt.Sprintf("(fp.eq %s %s)", x, y)
		default:
			if _, ok := u.(*types.Slice); ok {
				// only comparison with nil is legal
				if y == "nil.slice" {
					eq = fmt.Sprintf("(= %s 0)", sArr(x))
				} else if x == "nil.slice" {
					eq = fmt.Sprintf("(= %s 0)", sArr(y))
				} else {
					eq = fmt.Sprintf("(= %s %s)", x, y)
				}
			} else {
				eq = fmt.Sprintf("(= %s %s)", x, y)
			}
		}
		if op == token.NEQ {
			return not(eq), nil
		}
		return eq, nil
	}
	if !isBasic {
		return "", fmt.Errorf("binop %s on %s", op, t)
	}
	info := b.Info()
	switch {
	case info&types.IsBoolean != 0:
		switch op {
		case token.LAND, token.AND:
			return and(x, y), nil
		case token.LOR, token.OR:
			return or(x, y), nil
		}
	case info&types.IsString != 0:
		switch op {
		case token.ADD:
			return fmt.Sprintf("(strcat %s %s)", x, y), nil
		case token.LSS:
			return fmt.Sprintf("(strlt %s %s)", x, y), nil
		case token.GTR:
			return fmt.Sprintf("(strlt %s %s)", y, x), nil
		case token.LEQ:
			return fmt.Sprintf("(not (strlt %s %s))", y, x), nil
		case token.GEQ:
			return fmt.Sprintf("(not (strlt %s %s))", x, y), nil
		}
	case info&types.IsFloat != 0:
		switch op {
		case token.ADD:
			return fmt.Sprintf("(fp.add RNE %s %s)", x, y), nil
		case token.SUB:
			return fmt.Sprintf("(fp.sub RNE %s %s)", x, y), nil
		case token.MUL:
			return fmt.Sprintf("(fp.mul RNE %s %s)", x, y), nil
		case token.QUO:
			return fmt.Sprintf("(fp.div RNE %s %s)", x, y), nil
		case token.LSS:
			return fmt.Sprintf("(fp.lt %s %s)", x, y), nil
		case token.LEQ:
			return fmt.Sprintf("(fp.leq %s %s)", x, y), nil
		case token.GTR:
			return fmt.Sprintf("(fp.gt %s %s)", x, y), nil
		case token.GEQ:
			return fmt.Sprintf("(fp.geq %s %s)", x, y), nil
		}
	case info&types.IsInteger != 0:
		w, signed := intWidth(b)
		if e.isBV(t) {
			switch op {
			case token.ADD:
				return fmt.Sprintf("(bvadd %s %s)", x, y), nil
			case token.SUB:
				return fmt.Sprintf("(bvsub %s %s)", x, y), nil
			case token.MUL:
				return fmt.Sprintf("(bvmul %s %s)", x, y), nil
			case token.QUO:
				if e.absDiv {
					// division treated as an uninterpreted function (only congruence is needed)
					e.notes["division abstracted as an uninterpreted function in this function (option divabs)"] = true
					return e.uf(fmt.Sprintf("div.abs.%d.%v", w, signed), []string{e.sortOf(t), e.sortOf(t)}, e.sortOf(t), x, y), nil
				}
				if signed {
					return fmt.Sprintf("(bvsdiv %s %s)", x, y), nil
				}
				if c, ok := e.litValue(y); ok && c.Sign() > 0 && new(big.Int).And(c, new(big.Int).Sub(c, big.NewInt(1))).Sign() == 0 {
					return fmt.Sprintf("(bvlshr %s (_ bv%d %d))", x, c.BitLen()-1, w), nil
				}
				return fmt.Sprintf("(bvudiv %s %s)", x, y), nil
			case token.REM:
				if signed {
					return fmt.Sprintf("(bvsrem %s %s)", x, y), nil
				}
				if c, ok := e.litValue(y); ok && c.Sign() > 0 && new(big.Int).And(c, new(big.Int).Sub(c, big.NewInt(1))).Sign() == 0 {
					return fmt.Sprintf("(bvand %s (_ bv%s %d))", x, new(big.Int).Sub(c, big.NewInt(1)).String(), w), nil
				}
				return fmt.Sprintf("(bvurem %s %s)", x, y), nil
			case token.AND:
				return fmt.Sprintf("(bvand %s %s)", x, y), nil
			case token.OR:
				return fmt.Sprintf("(bvor %s %s)", x, y), nil
			case token.XOR:
				return fmt.Sprintf("(bvxor %s %s)", x, y), nil
			case token.AND_NOT:
				return fmt.Sprintf("(bvand %s (bvnot %s))", x, y), nil
			case token.SHL, token.SHR:
				yw := 64
				if yb, ok := yt.Underlying().(*types.Basic); ok {
					yw, _ = intWidth(yb)
				}
				if !e.isBV(yt) {
					// shift count of type int (mathematical): a case table over the w possible constant
					// shifts avoids int2bv, which the solvers handle badly
					if c, ok := e.litValue(y); ok && c.IsInt64() && c.Int64() >= 0 {
						y = fmt.Sprintf("(_ bv%d %d)", min64(c.Int64(), int64(w)), w)
						yw = w
					} else {
						fn := fmt.Sprintf("shift.%s.%d.%v", map[token.Token]string{token.SHL: "shl", token.SHR: "shr"}[op], w, signed)
						var body string
						if op == token.SHR && signed {
							body = fmt.Sprintf("(bvashr x (_ bv%d %d))", w-1, w)
						} else {
							body = fmt.Sprintf("(_ bv0 %d)", w)
						}
						for k := w - 1; k >= 0; k-- {
							var sh string
							switch {
							case op == token.SHL:
								sh = fmt.Sprintf("(bvshl x (_ bv%d %d))", k, w)
							case signed:
								sh = fmt.Sprintf("(bvashr x (_ bv%d %d))", k, w)
							default:
								sh = fmt.Sprintf("(bvlshr x (_ bv%d %d))", k, w)
							}
							body = fmt.Sprintf("(ite (= n %d) %s %s)", k, sh, body)
						}
						e.addPre(fn, fmt.Sprintf("(define-fun %s ((x (_ BitVec %d)) (n Int)) (_ BitVec %d) %s)", fn, w, w, body))
						return fmt.Sprintf("(%s %s %s)", fn, x, y), nil
					}
				}
				amt := y
				var over string
				if yw < w {
					amt = fmt.Sprintf("((_ zero_extend %d) %s)", w-yw, y)
				} else if yw > w {
					over = fmt.Sprintf("(bvuge %s (_ bv%d %d))", y, w, yw)
					amt = fmt.Sprintf("((_ extract %d 0) %s)", w-1, y)
				}
				var r string
				if op == token.SHL {
					r = fmt.Sprintf("(bvshl %s %s)", x, amt)
				} else if signed {
					r = fmt.Sprintf("(bvashr %s %s)", x, amt)
				} else {
					r = fmt.Sprintf("(bvlshr %s %s)", x, amt)
				}
				if over != "" {
					fill := fmt.Sprintf("(_ bv0 %d)", w)
					if op == token.SHR && signed {
						fill = fmt.Sprintf("(bvashr %s (_ bv%d %d))", x, w-1, w)
					}
					r = fmt.Sprintf("(ite %s %s %s)", over, fill, r)
				}
				return r, nil
			case token.LSS:
				if signed {
					return fmt.Sprintf("(bvslt %s %s)", x, y), nil
				}
				return fmt.Sprintf("(bvult %s %s)", x, y), nil
			case token.LEQ:
				if signed {
					return fmt.Sprintf("(bvsle %s %s)", x, y), nil
				}
				return fmt.Sprintf("(bvule %s %s)", x, y), nil
			case token.GTR:
				if signed {
					return fmt.Sprintf("(bvsgt %s %s)", x, y), nil
				}
				return fmt.Sprintf("(bvugt %s %s)", x, y), nil
			case token.GEQ:
				if signed {
					return fmt.Sprintf("(bvsge %s %s)", x, y), nil
				}
				return fmt.Sprintf("(bvuge %s %s)", x, y), nil
			}
		} else {
			if op == token.ADD || op == token.SUB || op == token.MUL {
				if a, ok1 := e.litValue(x); ok1 && !strings.HasPrefix(x, "(_ bv") {
					if b, ok2 := e.litValue(y); ok2 && !strings.HasPrefix(y, "(_ bv") {
						r := new(big.Int)
						switch op {
						case token.ADD:
							r.Add(a, b)
						case token.SUB:
							r.Sub(a, b)
						default:
							r.Mul(a, b)
						}
						return e.ilitBig(r), nil
					}
				}
			}
			switch op {
			case token.ADD:
				return fmt.Sprintf("(+ %s %s)", x, y), nil
			case token.SUB:
				return fmt.Sprintf("(- %s %s)", x, y), nil
			case token.MUL:
				return fmt.Sprintf("(* %s %s)", x, y), nil
			case token.QUO:
				if signed {
					return fmt.Sprintf("(tdiv %s %s)", x, y), nil
				}
				return fmt.Sprintf("(div %s %s)", x, y), nil
			case token.REM:
				if signed {
					return fmt.Sprintf("(tmod %s %s)", x, y), nil
				}
				return fmt.Sprintf("(mod %s %s)", x, y), nil
			case token.LSS:
				return fmt.Sprintf("(< %s %s)", x, y), nil
			case token.LEQ:
				return fmt.Sprintf("(<= %s %s)", x, y), nil
			case token.GTR:
				return fmt.Sprintf("(> %s %s)", x, y), nil
			case token.GEQ:
				return fmt.Sprintf("(>= %s %s)", x, y), nil
			case token.AND:
				for _, pr := range [][2]string{{x, y}, {y, x}} {
					if c, ok := e.litValue(pr[1]); ok && c.Sign() >= 0 {
						c1 := new(big.Int).Add(c, big.NewInt(1))
						if c1.BitLen() > 0 && new(big.Int).And(c1, c).Sign() == 0 { // c = 2^k-1
							return fmt.Sprintf("(mod %s %s)", pr[0], c1.String()), nil
						}
					}
				}
				e.notes["arith int: '&' abstracted as uninterpreted function"] = true
				return e.uf("bit.and", []string{"Int", "Int"}, "Int", x, y), nil
			case token.OR:
				e.notes["arith int: '|' abstracted as uninterpreted function"] = true
				return e.uf("bit.or", []string{"Int", "Int"}, "Int", x, y), nil
			case token.XOR:
				e.notes["arith int: '^' abstracted as uninterpreted function"] = true
				return e.uf("bit.xor", []string{"Int", "Int"}, "Int", x, y), nil
			case token.AND_NOT:
				e.notes["arith int: '&^' abstracted as uninterpreted function"] = true
				return e.uf("bit.andnot", []string{"Int", "Int"}, "Int", x, y), nil
			case token.SHL:
				if c, ok := e.litValue(y); ok && c.IsInt64() && c.Int64() >= 0 && c.Int64() < 64 {
					return fmt.Sprintf("(* %s %s)", x, pow2(int(c.Int64())).String()), nil
				}
				e.notes["arith int: variable '<<' abstracted as uninterpreted function"] = true
				return e.uf("bit.shl", []string{"Int", "Int"}, "Int", x, y), nil
			case token.SHR:
				if c, ok := e.litValue(y); ok && c.IsInt64() && c.Int64() >= 0 && c.Int64() < 64 {
					return fmt.Sprintf("(div %s %s)", x, pow2(int(c.Int64())).String()), nil
				}
				e.notes["arith int: variable '>>' abstracted as uninterpreted function"] = true
				return e.uf("bit.shr", []string{"Int", "Int"}, "Int", x, y), nil
			}
		}
	}
	return "", fmt.Errorf("unsupported binop %s on %s", op, t)
}

func (e *Encoder) unop(op token.Token, x string, t types.Type) (string, error) {
	b, _ := t.Underlying().(*types.Basic)
	switch op {
	case token.NOT:
		return not(x), nil
	case token.SUB:
		if b != nil && b.Info()&types.IsFloat != 0 {
			return fmt.Sprintf("(fp.neg %s)", x), nil
		}
		if e.isBV(t) {
			return fmt.Sprintf("(bvneg %s)", x), nil
		}
		return fmt.Sprintf("(- %s)", x), nil
	case token.XOR:
		if e.isBV(t) {
			return fmt.Sprintf("(bvnot %s)", x), nil
		}
		w, signed := intWidth(b)
		if signed {
			return fmt.Sprintf("(- (- %s) 1)", x), nil
		}
		return fmt.Sprintf("(- %s %s)", new(big.Int).Sub(pow2(w), big.NewInt(1)).String(), x), nil
	}
	return "", fmt.Errorf("unsupported unop %s", op)
}

// convert encodes a numeric/string conversion of term x from type `from` to type `to`.
func (e *Encoder) convert(x string, from, to types.Type) (string, error) {
	fb, _ := from.Underlying().(*types.Basic)
	tb, _ := to.Underlying().(*types.Basic)
	if fb == nil || tb == nil {
		if e.sortOf(from) == e.sortOf(to) {
			return x, nil
		}
		return "", fmt.Errorf("unsupported conversion %s -> %s", from, to)
	}
	fi, ti := fb.Info(), tb.Info()
	switch {
	case fi&types.IsInteger != 0 && ti&types.IsInteger != 0:
		fw, fs := intWidth(fb)
		tw, ts := intWidth(tb)
		fbv, tbv := e.isBV(from), e.isBV(to)
		if fbv && !tbv {
			// bit-vector -> mathematical int through axiomatised conversion functions
			// (bv2nat/int2bv are handled badly by the solvers; the axioms are all true of the real conversion)
			e.convAxioms(fw)
			var v string
			if lit, ok := e.litValue(x); ok {
				n := new(big.Int).Set(lit)
				if fs && n.Cmp(pow2(fw-1)) >= 0 {
					n.Sub(n, pow2(fw))
				}
				v = e.ilitBig(n)
			} else if fs {
				v = fmt.Sprintf("(s2i%d %s)", fw, x)
			} else {
				v = fmt.Sprintf("(u2i%d %s)", fw, x)
			}
			if tw < fw || (!fs && tw == fw) {
				if !fs && tw == fw {
					// unsigned -> signed of the same width: reinterpretation
					if _, ok := e.litValue(x); !ok {
						return fmt.Sprintf("(s2i%d %s)", fw, x), nil
					}
				}
				m := pow2(tw).String()
				h := pow2(tw - 1).String()
				v = fmt.Sprintf("(- (mod (+ %s %s) %s) %s)", v, h, m, h)
			}
			return v, nil
		}
		if !fbv && tbv {
			e.convAxioms(tw)
			if lit, ok := e.litValue(x); ok {
				return e.tlit(lit, to), nil
			}
			return fmt.Sprintf("(i2bv%d %s)", tw, x), nil
		}
		if fbv && tbv {
			switch {
			case tw == fw:
				return x, nil
			case tw < fw:
				return fmt.Sprintf("((_ extract %d 0) %s)", tw-1, x), nil
			case fs:
				return fmt.Sprintf("((_ sign_extend %d) %s)", tw-fw, x), nil
			default:
				return fmt.Sprintf("((_ zero_extend %d) %s)", tw-fw, x), nil
			}
		}
		// int mode: value-preserving when the target range includes the source range
		if (fs == ts && tw >= fw) || (!fs && ts && tw > fw) {
			return x, nil
		}
		if ts {
			// wrap into signed range
			m := pow2(tw).String()
			h := pow2(tw - 1).String()
			return fmt.Sprintf("(- (mod (+ %s %s) %s) %s)", x, h, m, h), nil
		}
		return fmt.Sprintf("(mod %s %s)", x, pow2(tw).String()), nil
	case fi&types.IsInteger != 0 && ti&types.IsFloat != 0:
		_, fs := intWidth(fb)
		sort := "11 53"
		if tb.Kind() == types.Float32 {
			sort = "8 24"
		}
		if e.isBV(from) {
			if fs {
				return fmt.Sprintf("((_ to_fp %s) RNE %s)", sort, x), nil
			}
			return fmt.Sprintf("((_ to_fp_unsigned %s) RNE %s)", sort, x), nil
		}
		return fmt.Sprintf("((_ to_fp %s) RNE (to_real %s))", sort, x), nil
	case fi&types.IsFloat != 0 && ti&types.IsInteger != 0:
		tw, ts := intWidth(tb)
		if e.isBV(to) {
			if ts {
				return fmt.Sprintf("((_ fp.to_sbv %d) RTZ %s)", tw, x), nil
			}
			return fmt.Sprintf("((_ fp.to_ubv %d) RTZ %s)", tw, x), nil
		}
		// int mode: truncate toward zero via real
		r := fmt.Sprintf("(fp.to_real %s)", x)
		return fmt.Sprintf("(ite (>= %s 0.0) (to_int %s) (- (to_int (- %s))))", r, r, r), nil
	case fi&types.IsFloat != 0 && ti&types.IsFloat != 0:
		if fb.Kind() == tb.Kind() || (fb.Kind() == types.UntypedFloat) {
			return x, nil
		}
		sort := "11 53"
		if tb.Kind() == types.Float32 {
			sort = "8 24"
		}
		return fmt.Sprintf("((_ to_fp %s) RNE %s)", sort, x), nil
	case fi&types.IsString != 0 && ti&types.IsString != 0:
		return x, nil
	case fi&types.IsBoolean != 0 && ti&types.IsBoolean != 0:
		return x, nil
	case fi&types.IsInteger != 0 && ti&types.IsString != 0:
		return e.uf("strfromrune", []string{e.sortOf(from)}, "Str", x), nil
	}
	return "", fmt.Errorf("unsupported conversion %s -> %s", from, to)
}
