#!/usr/bin/env python3
"""seedconfirm.py <ID> [letters...]
Confirm sub-agent seeded changes found in /tmp/seed/<ID>.out/<x>.{patch.diff,demo_test.go|demo.sh,meta.json}:
  1. in a scratch worktree of /repo (outside /repo and /verif): the patch applies, the project builds, the whole
     test suite passes with it, the demonstration passes without the patch and fails with it;
  2. on /repo itself: apply the patch, run the property's quick check (output redirected to a scratch
     directory so committed evidence is untouched), undo the patch straight afterwards;
  3. store the change as /verif/seeded/<ID>-<name>/ (patch.diff, demonstration, meta.json with the outcome).
The scratch worktree is removed at the end."""
import json, os, re, shutil, subprocess, sys, glob, tempfile

ENV = dict(os.environ, GOFLAGS='-mod=mod', GOPROXY='off', GOSUMDB='off', GOTOOLCHAIN='local')

def sh(cmd, cwd=None, timeout=1800, env=ENV):
    p = subprocess.run(cmd, shell=True, cwd=cwd, env=env, capture_output=True, text=True, timeout=timeout)
    out = '\n'.join(l for l in (p.stdout + p.stderr).splitlines() if 'conda.cli.condarc' not in l)
    return p.returncode, out

def main():
    pid = sys.argv[1]
    letters = sys.argv[2:]
    outdir = f'/tmp/seed/{pid}.out'
    if not letters:
        letters = sorted({os.path.basename(f).split('.')[0] for f in glob.glob(outdir + '/*.patch.diff')})
    # snapshot of the checker taken together with the worktree: consistent even if /verif moves on meanwhile
    home = tempfile.mkdtemp(prefix=f'seedhome-{pid}-', dir='/tmp')
    os.makedirs(home + '/bin')
    shutil.copy('/verif/bin/pverif', home + '/bin/pverif')
    shutil.copytree('/verif/props', home + '/props')
    shutil.copy('/verif/known_findings.json', home + '/known_findings.json')
    wt = tempfile.mkdtemp(prefix=f'seedchk-{pid}-', dir='/tmp')
    os.rmdir(wt)
    rc, out = sh(f'git -C /repo worktree add --detach {wt} HEAD')
    assert rc == 0, out
    results = []
    try:
        for x in letters:
            patch = f'{outdir}/{x}.patch.diff'
            meta = json.load(open(f'{outdir}/{x}.meta.json')) if os.path.exists(f'{outdir}/{x}.meta.json') else {}
            demo = None
            for cand in (f'{outdir}/{x}.demo_test.go', f'{outdir}/{x}.demo.sh'):
                if os.path.exists(cand):
                    demo = cand
            r = {'id': pid, 'letter': x, 'name': meta.get('name', x)}
            sh('git checkout -- . && git clean -fdq', cwd=wt)
            # where does the demo go?
            demo_dir, demo_run = None, None
            if demo and demo.endswith('.go'):
                head = open(demo).read().split('\n', 5)[:5]
                txt = '\n'.join(head)
                m = re.search(r'go test [^\n`]*?(\./[\w/\.]+)', txt)
                pk = re.search(r'^package (\w+)', open(demo).read(), re.M).group(1)
                if m:
                    demo_dir = m.group(1).rstrip('/').lstrip('./')
                if not demo_dir:
                    # guess from files touched by the patch
                    f0 = meta.get('files', [''])[0]
                    demo_dir = os.path.dirname(f0)
                rn = re.search(r'-run[ =]+[\'"]?([\w^$|]+)', txt)
                demo_run = rn.group(1) if rn else 'TestSeedDemo'
            def run_demo():
                if demo is None:
                    return None, 'no demonstration'
                if demo.endswith('.go'):
                    shutil.copy(demo, f'{wt}/{demo_dir}/zz_seed_demo_test.go')
                    rc, out = sh(f'go test -count=1 -vet=off -timeout 300s -run \'{demo_run}\' ./{demo_dir}/', cwd=wt)
                    os.remove(f'{wt}/{demo_dir}/zz_seed_demo_test.go')
                    return rc, out
                rc, out = sh(f'bash {demo} {wt}', cwd=wt)
                return rc, out
            rc0, out0 = run_demo()
            r['demo_clean_passes'] = (rc0 == 0)
            rc, out = sh(f'git apply {patch}', cwd=wt)
            r['applies'] = (rc == 0)
            if rc != 0:
                r['error'] = out[-500:]
                results.append(r)
                continue
            rc, out = sh('go build ./... && go vet ./... >/dev/null 2>&1; go build ./...', cwd=wt)
            r['builds'] = (rc == 0)
            rc, out = sh('go test -count=1 ./...', cwd=wt)
            r['tests_pass'] = (rc == 0)
            if rc != 0:
                r['test_output'] = out[-800:]
            rc1, out1 = run_demo()
            r['demo_patched_fails'] = (rc1 is not None and rc1 != 0)
            r['demo_output'] = (out1 or '')[-600:]
            sh('git checkout -- . && git clean -fdq', cwd=wt)
            # run the property's check against the scratch worktree with the patch applied (PVERIF_REPO points the
            # checker at it; /repo itself is not touched, so work there can go on)
            scratch = tempfile.mkdtemp(prefix='seedout-', dir='/tmp')
            rc, out = sh(f'git apply {patch}', cwd=wt)
            try:
                if rc != 0:
                    r['check'] = 'patch does not apply: ' + out[-300:]
                else:
                    env = dict(ENV, PVERIF_OUT=scratch, PVERIF_REPO=wt, PVERIF_HOME=home)
                    crc, cout = sh(f'{home}/bin/pverif check {pid} --tier quick', cwd=home, env=env, timeout=1200)
                    r['check_exit'] = crc
                    r['check_violations'] = [l for l in cout.splitlines() if l.startswith('VIOLATION')][:6]
                    r['check_summary'] = cout.splitlines()[-1] if cout.splitlines() else ''
            finally:
                sh('git checkout -- . && git clean -fdq', cwd=wt)
                shutil.rmtree(scratch, ignore_errors=True)
            confirmed = r.get('applies') and r.get('builds') and r.get('tests_pass') and r.get('demo_clean_passes') and r.get('demo_patched_fails')
            r['confirmed'] = bool(confirmed)
            r['caught'] = (r.get('check_exit') == 1 and bool(r.get('check_violations')))
            if confirmed:
                d = f'/verif/seeded/{pid}-{r["name"]}'
                os.makedirs(d, exist_ok=True)
                shutil.copy(patch, d + '/patch.diff')
                if demo:
                    shutil.copy(demo, d + '/' + ('demo_test.go.txt' if demo.endswith('.go') else 'demo.sh'))
                meta.update({'confirmed_by_me': True, 'demo_dir': demo_dir, 'demo_run': demo_run,
                             'caught_by_check': r['caught'], 'check_exit': r.get('check_exit'),
                             'check_violations': r.get('check_violations'), 'demo_failure_excerpt': r['demo_output'][-400:]})
                json.dump(meta, open(d + '/meta.json', 'w'), indent=1)
            results.append(r)
            print(json.dumps({k: v for k, v in r.items() if k not in ('demo_output', 'test_output')}), flush=True)
    finally:
        sh(f'git -C /repo worktree remove --force {wt}')
        shutil.rmtree(wt, ignore_errors=True)
        shutil.rmtree(home, ignore_errors=True)
    json.dump(results, open(f'/tmp/seed/{pid}.confirm.json', 'w'), indent=1)

main()
