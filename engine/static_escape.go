package main

// Static obligation kind "escaped-format" (C18): in the listed emitter functions every string that is
// formatted into the output (fmt.Fprintf / Fprintln / Fprint / Sprintf arguments, and string concatenations
// written through them) is a constant, the result of a sanitizer (escapeForDot, ...), a number formatted by a
// trusted formatter, a value read from an allow-listed configuration field, or built from such values.
// Discharged by a def-use walk over go/ssa; anything else is a string that reaches the output verbatim.

import (
	"fmt"
	"go/token"
	"go/types"
	"sort"
	"strings"

	"golang.org/x/tools/go/ssa"
)

type escCtx struct {
	prog       *Prog
	sanitizers map[string]bool
	trusted    map[string]bool // calls (static names or field names of function-typed fields) whose results are trusted
	fields     map[string]bool // T.f fields whose content is allowed verbatim
	usedTrust  map[string]bool
	params     map[string]bool // parameter names allowed verbatim (identifiers built by the caller from numbers)
	recvFields map[string][]string // method name -> receiver fields its result is built from
	visiting   map[ssa.Value]bool
}

func isStringType(t types.Type) bool {
	b, ok := t.Underlying().(*types.Basic)
	return ok && b.Info()&types.IsString != 0
}

// safe reports whether v can only hold sanitised / constant / trusted text; why: first offending producer.
func (c *escCtx) safe(v ssa.Value) (bool, string) {
	if c.visiting[v] {
		return true, ""
	}
	c.visiting[v] = true
	defer delete(c.visiting, v)
	if b, ok := v.Type().Underlying().(*types.Basic); ok && b.Info()&types.IsString == 0 {
		return true, "" // numbers, booleans: formatted by fmt
	}
	switch x := v.(type) {
	case *ssa.Const:
		return true, ""
	case *ssa.BinOp:
		if x.Op == token.ADD {
			if ok, why := c.safe(x.X); !ok {
				return false, why
			}
			return c.safe(x.Y)
		}
	case *ssa.Phi:
		for _, e := range x.Edges {
			if ok, why := c.safe(e); !ok {
				return false, why
			}
		}
		return true, ""
	case *ssa.Call:
		callee := x.Call.StaticCallee()
		if callee != nil {
			name := callee.Name()
			full := callee.String()
			if c.sanitizers[name] {
				return true, ""
			}
			if c.trusted[name] || c.trusted[full] {
				c.usedTrust[full] = true
				return true, ""
			}
			switch full {
			case "fmt.Sprintf", "fmt.Sprint":
				return c.safeVarargs(x.Call.Args)
			case "strings.TrimSpace", "strings.ToLower", "strings.ToUpper", "strings.TrimPrefix", "strings.TrimSuffix":
				return c.safe(x.Call.Args[0])
			case "strings.Replace", "strings.ReplaceAll":
				for _, a := range x.Call.Args[:3] {
					if ok, why := c.safe(a); !ok {
						return false, why
					}
				}
				return true, ""
			case "strings.Join":
				if ok, why := c.safe(x.Call.Args[0]); !ok {
					return false, why
				}
				return c.safe(x.Call.Args[1])
			case "strconv.Itoa", "strconv.FormatInt", "strconv.FormatUint":
				return true, ""
			}
			// method whose result is built from the receiver's fields: safe when, in the calling block, each
			// listed field of the (local) receiver has been overwritten with safe text before the call
			if flds, ok := c.recvFields[name]; ok && len(x.Call.Args) > 0 {
				if a, ok := x.Call.Args[0].(*ssa.Alloc); ok {
					return c.receiverFieldsSafe(x, a, flds)
				}
			}
			return false, fmt.Sprintf("result of %s", full)
		}
		// call through a function-typed field: trusted formatter?
		if u, ok := x.Call.Value.(*ssa.UnOp); ok {
			if fa, ok := u.X.(*ssa.FieldAddr); ok {
				fn := fieldName(fa)
				if c.trusted[fn] {
					c.usedTrust[fn] = true
					return true, ""
				}
				return false, "result of a call through " + fn
			}
		}
		return false, "result of a dynamic call"
	case *ssa.UnOp:
		if x.Op == token.MUL {
			if fa, ok := x.X.(*ssa.FieldAddr); ok {
				fn := fieldName(fa)
				if c.fields[fn] {
					return true, ""
				}
				// field of a local struct: the value of the store that reaches this load
				if a, ok := fa.X.(*ssa.Alloc); ok {
					if st := reachingFieldStore(x, a, fn); st != nil {
						return c.safe(st.Val)
					}
				}
				return false, "field " + fn + " read verbatim"
			}
			if a, ok := x.X.(*ssa.Alloc); ok {
				// local variable: every value stored into it must be safe
				for _, r := range *a.Referrers() {
					if st, ok := r.(*ssa.Store); ok && st.Addr == a {
						if ok, why := c.safe(st.Val); !ok {
							return false, why
						}
					}
				}
				return true, ""
			}
			if ia, ok := x.X.(*ssa.IndexAddr); ok {
				return c.safe(ia.X)
			}
		}
	case *ssa.Field:
		if st, ok := x.X.Type().Underlying().(*types.Struct); ok {
			fn := namedOf(x.X.Type()) + "." + st.Field(x.Field).Name()
			if c.fields[fn] {
				return true, ""
			}
			return false, "field " + fn + " read verbatim"
		}
	case *ssa.Extract:
		return c.safe(x.Tuple)
	case *ssa.Next:
		return c.safe(x.Iter)
	case *ssa.Range:
		return c.safe(x.X)
	case *ssa.Slice:
		return c.safe(x.X)
	case *ssa.MakeInterface:
		return c.safe(x.X)
	case *ssa.ChangeType:
		return c.safe(x.X)
	case *ssa.Convert:
		return c.safe(x.X)
	case *ssa.Alloc:
		// array backing a slice literal / varargs: every element stored must be safe
		for _, r := range *x.Referrers() {
			if ia, ok := r.(*ssa.IndexAddr); ok {
				for _, rr := range *ia.Referrers() {
					if st, ok := rr.(*ssa.Store); ok && st.Addr == ia {
						if ok, why := c.safe(st.Val); !ok {
							return false, why
						}
					}
				}
			}
		}
		return true, ""
	case *ssa.Parameter:
		if c.params[x.Name()] {
			return true, ""
		}
		return false, "parameter " + x.Name() + " used verbatim"
	}
	return false, fmt.Sprintf("value %s (%T)", v.Name(), v)
}

// reachingFieldStore: the store to field f of the local struct recv whose value an instruction at `at` sees:
// the last one before `at` in its block, or else the deepest one in a dominating block provided no store
// to the field sits outside the dominators of `at`.
func reachingFieldStore(at ssa.Instruction, recv *ssa.Alloc, f string) *ssa.Store {
	var last *ssa.Store
	for _, in := range at.Block().Instrs {
		if in == at {
			break
		}
		if st, ok := in.(*ssa.Store); ok {
			if fa, ok := st.Addr.(*ssa.FieldAddr); ok && fa.X == recv && fieldName(fa) == f {
				last = st
			}
		}
	}
	if last != nil {
		return last
	}
	var best *ssa.Store
	for _, b := range at.Parent().Blocks {
		if b == at.Block() {
			continue
		}
		for _, in := range b.Instrs {
			st, ok := in.(*ssa.Store)
			if !ok {
				continue
			}
			if fa, ok := st.Addr.(*ssa.FieldAddr); ok && fa.X == recv && fieldName(fa) == f {
				if !b.Dominates(at.Block()) {
					return nil
				}
				if best == nil || best.Block().Dominates(b) {
					best = st
				}
			}
		}
	}
	return best
}

func (c *escCtx) receiverFieldsSafe(call *ssa.Call, recv *ssa.Alloc, fields []string) (bool, string) {
	for _, f := range fields {
		last := reachingFieldStore(call, recv, f)
		if last == nil {
			return false, fmt.Sprintf("field %s of the receiver of %s is not overwritten with escaped text on every path before the call", f, call.Call.StaticCallee().Name())
		}
		if ok, why := c.safe(last.Val); !ok {
			return false, fmt.Sprintf("field %s of the receiver of %s: %s", f, call.Call.StaticCallee().Name(), why)
		}
	}
	return true, ""
}

func fieldName(fa *ssa.FieldAddr) string {
	pt := fa.X.Type().Underlying().(*types.Pointer)
	st := pt.Elem().Underlying().(*types.Struct)
	return namedOf(pt.Elem()) + "." + st.Field(fa.Field).Name()
}

// safeVarargs: the arguments of a fmt-style call: format (when constant) and the packed variadic values.
func (c *escCtx) safeVarargs(args []ssa.Value) (bool, string) {
	for _, a := range args {
		if ok, why := c.safe(a); !ok {
			return false, why
		}
	}
	return true, ""
}

func runEscapedFormat(prog *Prog, sc StaticCheck) *StaticResult {
	res := &StaticResult{Name: sc.Name, Kind: sc.Kind}
	c := &escCtx{prog: prog, sanitizers: map[string]bool{}, trusted: map[string]bool{}, fields: map[string]bool{}, usedTrust: map[string]bool{}, visiting: map[ssa.Value]bool{}, recvFields: map[string][]string{}, params: map[string]bool{}}
	for _, s := range splitList(sc.Args["allow_params"]) {
		c.params[s] = true
	}
	// receiver_fields: "Method:T.f+T.g;Other:T.h"
	for _, rf := range strings.Split(sc.Args["receiver_fields"], ";") {
		if i := strings.Index(rf, ":"); i > 0 {
			c.recvFields[strings.TrimSpace(rf[:i])] = strings.Split(strings.TrimSpace(rf[i+1:]), "+")
		}
	}
	for _, s := range splitList(sc.Args["sanitizers"]) {
		c.sanitizers[s] = true
	}
	for _, s := range splitList(sc.Args["trusted"]) {
		c.trusted[s] = true
	}
	for _, s := range splitList(sc.Args["allow_fields"]) {
		c.fields[s] = true
	}
	sinks := 0
	for _, fname := range splitList(sc.Args["funcs"]) {
		fn := prog.FindFunc(modPath+"/"+sc.Pkg, fname)
		if fn == nil {
			res.Obligations++
			res.Failures = append(res.Failures, "binding: function "+fname+" not found")
			continue
		}
		for _, b := range fn.Blocks {
			for _, in := range b.Instrs {
				call, ok := in.(*ssa.Call)
				if !ok || call.Call.StaticCallee() == nil {
					continue
				}
				var args []ssa.Value
				switch call.Call.StaticCallee().String() {
				case "fmt.Fprintf", "fmt.Fprintln", "fmt.Fprint":
					args = call.Call.Args[1:]
				default:
					continue
				}
				sinks++
				res.Obligations++
				if ok, why := c.safeVarargs(args); !ok {
					res.Failures = append(res.Failures, fmt.Sprintf("%s writes unescaped text at %s: %s", fname, posOf(prog, call.Pos()), why))
					continue
				}
				res.Discharged++
				if len(res.Samples) < 3 {
					res.Samples = append(res.Samples, map[string]interface{}{"obligation": fmt.Sprintf("%s#every string written at %s is constant, sanitised or trusted", fname, posOf(prog, call.Pos())), "backend": "def-use walk"})
				}
			}
		}
	}
	// sanitizer-producing helpers listed as "producers": every return value must itself be safe
	for _, pname := range splitList(sc.Args["producers"]) {
		fn := prog.FindFunc(modPath+"/"+sc.Pkg, pname)
		if fn == nil {
			res.Obligations++
			res.Failures = append(res.Failures, "binding: producer "+pname+" not found")
			continue
		}
		for _, b := range fn.Blocks {
			for _, in := range b.Instrs {
				ret, ok := in.(*ssa.Return)
				if !ok {
					continue
				}
				for _, r := range ret.Results {
					res.Obligations++
					if ok, why := c.safe(r); !ok {
						res.Failures = append(res.Failures, fmt.Sprintf("%s returns unescaped text (%s): %s", pname, posOf(prog, ret.Pos()), why))
						continue
					}
					res.Discharged++
				}
			}
		}
	}
	if sinks == 0 {
		res.Obligations++
		res.Failures = append(res.Failures, "no output call found in the listed functions (vacuous)")
	}
	var tr []string
	for k := range c.usedTrust {
		tr = append(tr, k)
	}
	sort.Strings(tr)
	if len(tr) > 0 {
		res.Trusted = append(res.Trusted, "escaped-format: results of "+strings.Join(tr, ", ")+" are trusted to need no escaping (number formatting / caller-supplied formatter)")
	}
	res.Detail = map[string]interface{}{"sinks": sinks}
	return res
}
