#!/bin/bash
# patchtry.sh <seed-dir-name or patch file> <Cxx> [Cxx...]: run the given checks against a scratch worktree of /repo with the
# seeded change applied (PVERIF_REPO), print the first VIOLATION line of each. /repo is not touched.
s=$1; shift; patch=$(realpath -m "$s"); [ -f "$patch" ] || patch=/verif/seeded/$s/patch.diff
wt=$(mktemp -d /tmp/seedtry.XXXXXX); rmdir $wt
git -C /repo worktree add --detach $wt HEAD >/dev/null 2>&1 || exit 2
if ! git -C $wt apply $patch; then echo "$s: PATCH DOES NOT APPLY"; git -C /repo worktree remove --force $wt; exit 3; fi
for c in "$@"; do
  out=$(mktemp -d /tmp/seedtryout.XXXXXX)
  r=$(PVERIF_REPO=$wt PVERIF_OUT=$out GOFLAGS=-mod=mod GOPROXY=off GOSUMDB=off GOTOOLCHAIN=local /verif/bin/pverif check $c --tier quick 2>&1 | grep -a "^VIOLATION\|obligations," )
  echo "$s $c: $(echo "$r" | grep -a -c '^VIOLATION') violation(s); $(echo "$r" | grep -a '^VIOLATION' | head -3 | tr "\n" " " | sed "s/.*obligation=//" | cut -c1-250)"
  rm -rf $out
done
git -C /repo worktree remove --force $wt >/dev/null 2>&1; rm -rf $wt
