package main

// pverif selftest: the must-fail corpus. Each selftest/mutants/<Cxx>-<name>.patch is
// applied to a scratch copy of /repo; the property's quick check must report a
// violation naming the expected obligation (<name>.expect), or must stay silent for
// semantics-preserving edits (expectation "none").

import (
	"sync"
	"fmt"
	"os"
	"os/exec"
	"path/filepath"
	"sort"
	"strings"
)

func cmdSelftest(args []string) int {
	dir := filepath.Join(verifDir, "selftest", "mutants")
	ents, err := os.ReadDir(dir)
	if err != nil {
		fmt.Fprintln(os.Stderr, err)
		return 2
	}
	var patches []string
	for _, e := range ents {
		if !strings.HasSuffix(e.Name(), ".patch") {
			continue
		}
		if len(args) > 0 {
			ok := false
			for _, a := range args {
				if strings.HasPrefix(e.Name(), a) {
					ok = true
				}
			}
			if !ok {
				continue
			}
		}
		patches = append(patches, e.Name())
	}
	sort.Strings(patches)
	self, _ := os.Executable()
	bad := 0
	par := 3
	if v := os.Getenv("PVERIF_SELFTEST_PAR"); v != "" {
		fmt.Sscanf(v, "%d", &par)
	}
	var mu sync.Mutex
	var wg sync.WaitGroup
	sem := make(chan struct{}, par)
	failed := false
	runOne := func(pn string) {
		defer wg.Done()
		sem <- struct{}{}
		defer func() { <-sem }()
		var outb strings.Builder
		isBad := false
		func() {
		prop := strings.SplitN(pn, "-", 2)[0]
		expect := ""
		if data, err := os.ReadFile(filepath.Join(dir, strings.TrimSuffix(pn, ".patch")+".expect")); err == nil {
			expect = strings.TrimSpace(string(data))
		}
		work, err := os.MkdirTemp("", "pverif-selftest-")
		if err != nil {
			fmt.Fprintln(os.Stderr, err)
			isBad = true
			return
		}
		repo := filepath.Join(work, "repo")
		out := filepath.Join(work, "out")
		cp := exec.Command("bash", "-c", fmt.Sprintf("mkdir -p %s && cd %s && git ls-files -z | xargs -0 cp --parents -t %s && cd %s && patch -p1 -s < %s", repo, envOr("PVERIF_SELFTEST_SRC", "/repo"), repo, repo, filepath.Join(dir, pn)))
		if o, err := cp.CombinedOutput(); err != nil {
			fmt.Fprintf(&outb, "SELFTEST %-45s ERROR applying patch: %v %s\n", pn, err, truncate(string(o), 300))
			isBad = true
			os.RemoveAll(work)
			return
		}
		cmd := exec.Command(self, "check", prop, "--tier", "quick")
		cmd.Env = append(os.Environ(), "PVERIF_REPO="+repo, "PVERIF_OUT="+out)
		o, _ := cmd.CombinedOutput()
		code := cmd.ProcessState.ExitCode()
		var viols []string
		for _, l := range strings.Split(string(o), "\n") {
			if strings.HasPrefix(l, "VIOLATION") {
				viols = append(viols, l)
			}
		}
		ok := false
		detail := ""
		switch {
		case expect == "none":
			ok = code == 0 && len(viols) == 0
			detail = "benign edit must not alarm"
		case expect == "":
			ok = code == 1 && len(viols) > 0
			detail = "any violation"
		default:
			for _, v := range viols {
				if strings.Contains(v, expect) {
					ok = true
				}
			}
			detail = "violation naming " + expect
		}
		mark := "ok  "
		if !ok {
			mark = "FAIL"
			isBad = true
		}
		first := ""
		if len(viols) > 0 {
			first = truncate(viols[0], 160)
		}
		fmt.Fprintf(&outb, "SELFTEST %s %-45s exit=%d violations=%d (expected: %s) %s\n", mark, pn, code, len(viols), detail, first)
		if !ok && len(viols) == 0 {
			lines := strings.Split(strings.TrimSpace(string(o)), "\n")
			fmt.Fprintln(&outb, "   last output:", truncate(lines[len(lines)-1], 300))
		}
		os.RemoveAll(work)
			}()
		mu.Lock()
		fmt.Print(outb.String())
		if isBad {
			bad++
		}
		mu.Unlock()
	}
	for _, pn := range patches {
		wg.Add(1)
		go runOne(pn)
	}
	wg.Wait()
	_ = failed
	fmt.Printf("selftest: %d mutants, %d unexpected\n", len(patches), bad)
	if bad > 0 {
		return 1
	}
	return 0
}
