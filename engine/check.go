package main

// pverif check <Cxx>: generate and discharge every obligation of a property, write
// evidence, print VIOLATION / KNOWN-FINDING lines.

import (
	"sync"
	"encoding/json"
	"fmt"
	"os"
	"path/filepath"
	"sort"
	"strconv"
	"strings"
	"time"
)

var verifDir = envOr("PVERIF_HOME", "/verif")

var outDir = envOr("PVERIF_OUT", filepath.Join(verifDir, "evidence"))

type PropFunc struct {
	Pkg  string `json:"pkg"`
	Name string `json:"name"`
	// Only: when set, only obligations whose name contains one of these substrings belong to the check
	// (e.g. the call-site precondition of one callee inside a function too large to verify in full)
	Only []string `json:"only,omitempty"`
	// Except: obligations whose name contains one of these substrings are NOT part of the check (they do not
	// discharge within the budget); each is listed in the evidence as not verified
	Except []string `json:"except,omitempty"`
	// Auto: a function without a written contract is checked against the empty contract (no precondition, loops
	// havoced): its zero-annotation safety obligations — every index, slice, nil dereference, division, type
	// assertion and reachable panic — for all inputs
	Auto bool `json:"auto,omitempty"`
}

type StaticCheck struct {
	Kind string            `json:"kind"`
	Pkg  string            `json:"pkg"`
	Args map[string]string `json:"args"`
	Name string            `json:"name"`
}

type PropSpec struct {
	ID         string        `json:"id"`
	Packages   []string      `json:"packages"`
	Functions  []PropFunc    `json:"functions"`
	Lemmas     []PropFunc    `json:"lemmas"`
	Static     []StaticCheck `json:"static"`
	NotDecided []string      `json:"not_decided"`
	Surround   []string      `json:"unverified_surroundings"`
	Assumes    []string      `json:"assumptions"`
	Thorough   struct {
		Functions []PropFunc `json:"functions"`
		Lemmas    []PropFunc `json:"lemmas"`
	} `json:"thorough"`
}

type KnownFinding struct {
	ID           string `json:"id"`
	Property     string `json:"property"`
	Obligation   string `json:"obligation"`    // exact obligation name, or prefix ending in '*'
	WitnessClass string `json:"witness_class"` // spec expression over the function's parameters (entry state); empty = whole obligation
	What         string `json:"what"`
	Input        string `json:"witness_input,omitempty"`
}

type KnownFile struct {
	Findings []KnownFinding `json:"findings"`
	Fixed    []string       `json:"fixed"`
}

func loadKnown() *KnownFile {
	kf := &KnownFile{}
	data, err := os.ReadFile(filepath.Join(verifDir, "known_findings.json"))
	if err != nil {
		return kf
	}
	if err := json.Unmarshal(data, kf); err != nil {
		fmt.Fprintf(os.Stderr, "known_findings.json: %v\n", err)
	}
	return kf
}

type oblReport struct {
	Name    string  `json:"name"`
	Kind    string  `json:"kind"`
	Clause  string  `json:"clause"`
	Pos     string  `json:"pos"`
	Status  string  `json:"status"`
	Solver  string  `json:"solver"`
	TimeS   float64 `json:"time_s"`
	SMTSize int     `json:"smt_bytes"`
	Bounded int     `json:"bounded,omitempty"`
}

type checkRun struct {
	prop      *PropSpec
	tier      string
	seed      int
	prog      *Prog
	vcs       []*VC
	obls      []*Obligation
	bindErrs  []string
	funcs     []map[string]interface{}
	trusted   map[string]bool
	notes     map[string]bool
	known     *KnownFile
	static    []*StaticResult
	deferred  []string
	start     time.Time
}

func cmdCheck(args []string) int {
	if len(args) < 1 {
		usage()
	}
	id := args[0]
	tier := os.Getenv("VERIF_TIER")
	if tier == "" {
		tier = "quick"
	}
	for i := 1; i < len(args); i++ {
		if args[i] == "--tier" && i+1 < len(args) {
			tier = args[i+1]
			i++
		}
	}
	seed, _ := strconv.Atoi(os.Getenv("VERIF_SEED"))
	data, err := os.ReadFile(filepath.Join(verifDir, "props", id+".json"))
	if err != nil {
		fmt.Fprintln(os.Stderr, err)
		return 2
	}
	var ps PropSpec
	if err := json.Unmarshal(data, &ps); err != nil {
		fmt.Fprintln(os.Stderr, "props file:", err)
		return 2
	}
	run := &checkRun{prop: &ps, tier: tier, seed: seed, trusted: map[string]bool{}, notes: map[string]bool{}, known: loadKnown(), start: time.Now()}
	return run.run()
}

func (r *checkRun) run() int {
	ps := r.prop
	prog, err := LoadProg(ps.Packages)
	if err != nil {
		fmt.Fprintln(os.Stderr, "load:", err)
		// a tree that does not compile is not a property violation, but the check cannot run
		r.writeEvidence(nil, 0, []string{"load failed: " + err.Error()})
		return 2
	}
	r.prog = prog
	funcs := append([]PropFunc{}, ps.Functions...)
	lemmas := append([]PropFunc{}, ps.Lemmas...)
	if r.tier == "thorough" {
		funcs = append(funcs, ps.Thorough.Functions...)
		lemmas = append(lemmas, ps.Thorough.Lemmas...)
	}
	// no assume/admit on pprof functions
	for _, cf := range prog.Contracts {
		for _, name := range cf.Order {
			fc := cf.Funcs[name]
			if fc.Extern {
				continue
			}
		}
	}
	for _, pf := range funcs {
		vc := r.genFunc(pf, false)
		if vc == nil {
			continue
		}
		r.vcs = append(r.vcs, vc)
		r.obls = append(r.obls, vc.obls...)
	}
	for _, pl := range lemmas {
		vc := r.genLemma(pl)
		if vc == nil {
			continue
		}
		r.vcs = append(r.vcs, vc)
		r.obls = append(r.obls, vc.obls...)
	}
	for _, sc := range ps.Static {
		res := runStatic(prog, sc)
		r.static = append(r.static, res)
	}
	if r.tier != "thorough" {
		// clauses labelled slow_* are discharged in the thorough tier only (they need more than the quick budget)
		var keep []*Obligation
		for _, o := range r.obls {
			if strings.Contains(o.Name, "#ensures.slow_") || strings.Contains(o.Name, ".inv.slow_") || strings.Contains(o.Name, "#conclude.slow_") {
				r.deferred = append(r.deferred, o.Name)
				continue
			}
			keep = append(keep, o)
		}
		r.obls = keep
	}
	r.macroCovers()
	r.applyKnownFindings()
	timeout := 10
	if r.tier == "thorough" {
		timeout = 60
	}
	runObligations(r.obls, timeout, 16)
	// an obligation that ran out of time is tried again with little contention and a more generous limit
	// before it is reported: on a loaded machine 16 x 3 concurrent solver processes starve one another, and a
	// timeout must not be mistaken for a refutation (DESIGN section 14)
	var again []*Obligation
	for _, o := range r.obls {
		if o.Kind == "cover" || o.ExpectFail || o.Result == nil {
			continue
		}
		if o.Result.Status == "timeout" || o.Result.Status == "unknown" {
			again = append(again, o)
		}
	}
	if len(again) > 0 && len(again) <= 24 {
		for _, o := range again {
			o.Result = nil
		}
		runObligations(again, 3*timeout, 3)
		r.notes[fmt.Sprintf("%d obligation(s) exceeded the first time limit and were re-run with less parallelism and three times the limit", len(again))] = true
	}
	if r.tier == "thorough" {
		r.crossCheck(timeout)
	}
	return r.report()
}

func (r *checkRun) genFunc(pf PropFunc, macro bool) *VC {
	path := modPath + "/" + pf.Pkg
	cf := r.prog.Contracts[path]
	qn := r.prog.shortPkg(path) + "." + pf.Name
	var fc *FuncContract
	if cf != nil {
		fc = cf.Funcs[pf.Name]
	}
	if fc == nil && pf.Auto {
		fc = &FuncContract{Name: pf.Name, Pkg: path, Arith: "int", Options: map[string]string{}}
		r.notes[qn+": no written contract — checked against the empty contract (zero-annotation safety sweep: no precondition, loops havoced)"] = true
	}
	if fc == nil {
		r.bindErrs = append(r.bindErrs, fmt.Sprintf("%s: no contract found (contract file missing or function not listed)", qn))
		return nil
	}
	fn := r.prog.FindFunc(path, pf.Name)
	if fn == nil {
		r.bindErrs = append(r.bindErrs, fmt.Sprintf("%s: contract binding stale: function not found in package", qn))
		return nil
	}
	specMacroMode = macro
	vc := GenFunc(r.prog, fn, fc)
	specMacroMode = false
	if len(pf.Only) > 0 {
		total := len(vc.obls)
		var keep []*Obligation
		for _, o := range vc.obls {
			for _, sub := range pf.Only {
				if strings.Contains(o.Name, sub) {
					keep = append(keep, o)
					break
				}
			}
		}
		vc.obls = keep
		if !macro {
			r.notes[fmt.Sprintf("%s: only the obligations matching %v are part of this check (%d of %d generated); the rest of the function is not verified", qn, pf.Only, len(keep), total)] = true
			if len(keep) == 0 {
				r.bindErrs = append(r.bindErrs, fmt.Sprintf("%s: no obligation matches %v (vacuous selection)", qn, pf.Only))
			}
		}
	}
	if len(pf.Except) > 0 {
		var keep []*Obligation
		hit := map[string]int{}
		for _, o := range vc.obls {
			drop := false
			for _, sub := range pf.Except {
				if strings.Contains(o.Name, sub) {
					drop = true
					hit[sub]++
					if !macro {
						r.notes[fmt.Sprintf("%s: obligation %s is excluded from this check (listed under except: it does not discharge within the budget) and is NOT verified", qn, o.Name)] = true
					}
					break
				}
			}
			if !drop {
				keep = append(keep, o)
			}
		}
		vc.obls = keep
		if !macro {
			for _, sub := range pf.Except {
				if hit[sub] == 0 {
					r.bindErrs = append(r.bindErrs, fmt.Sprintf("%s: except pattern %q matches no obligation (stale exclusion)", qn, sub))
				}
			}
		}
	}
	if !macro {
		for _, e := range vc.errs {
			r.bindErrs = append(r.bindErrs, qn+": "+e)
		}
		file, line, hash := r.prog.funcSourceHash(fn)
		nclauses := len(fc.Requires) + len(fc.Ensures)
		for _, l := range fc.Loops {
			nclauses += len(l.Invariants) + len(l.Steps) + len(l.MustCalls)
			if l.Decreases != nil {
				nclauses++
			}
		}
		r.funcs = append(r.funcs, map[string]interface{}{"name": qn, "file": strings.TrimPrefix(file, repoDir+"/"), "line": line, "source_hash": hash, "arith": fc.Arith, "clauses": nclauses, "bounded": fc.Bounded, "obligations": len(vc.obls)})
		for k := range vc.prog.assumed {
			r.trusted[k] = true
		}
		for k := range vc.enc.trusted {
			r.trusted[k] = true
		}
		for k := range vc.enc.notes {
			r.notes[qn+": "+k] = true
		}
		if fc.Arith == "int" {
			r.notes[qn+": arith int — machine integers treated as mathematical integers with type-range facts"] = true
		} else {
			r.notes[qn+": arith bv — fixed-width integers exact (bit-vectors); Go int (indices, lengths) mathematical"] = true
		}
		if fc.Bounded > 0 {
			for _, o := range vc.obls {
				o.Bounded = fc.Bounded
			}
		}
	}
	return vc
}

// macroCovers: vacuity (cover) queries must come back "sat"; they are generated with
// spec functions expanded inline, which is where the solvers can build models.
func (r *checkRun) macroCovers() {
	for _, vc := range r.vcs {
		hasCover := false
		for _, o := range vc.obls {
			if o.Kind == "cover" {
				hasCover = true
			}
		}
		if !hasCover {
			continue
		}
		specMacroMode = true
		var vc2 *VC
		if vc.fn != nil {
			vc2 = GenFunc(r.prog, vc.fn, vc.fc)
		} else if vc.lemma != nil {
			vc2 = GenLemma(r.prog, vc.lemmaPkg, vc.lemma, vc.qname)
		}
		specMacroMode = false
		if vc2 == nil {
			continue
		}
		for _, o := range r.obls {
			if o.vc != vc || o.Kind != "cover" {
				continue
			}
			for _, o2 := range vc2.obls {
				if o2.Name == o.Name {
					o.vc = vc2
					o.Goal, o.Path, o.lineIdx = o2.Goal, o2.Path, o2.lineIdx
				}
			}
		}
	}
}

// applyKnownFindings splits obligations that carry a recorded finding into the part
// that must still hold (outside the witness class) and a canary (inside it).
func (r *checkRun) applyKnownFindings() {
	for _, kf := range r.known.Findings {
		if kf.Property != r.prop.ID {
			continue
		}
		matched := false
		var extra []*Obligation
		for _, o := range r.obls {
			if !matchObl(kf.Obligation, o.Name) || o.ExpectFail || o.KF != nil {
				continue
			}
			matched = true
			if kf.WitnessClass == "" {
				// the whole obligation is the finding: it must still fail
				o.ExpectFail = true
				o.KF = &kf
				continue
			}
			w, err := o.vc.evalEntry(kf.WitnessClass)
			if err != nil {
				r.bindErrs = append(r.bindErrs, fmt.Sprintf("known finding %s: witness class does not evaluate: %v", kf.ID, err))
				continue
			}
			canary := *o
			canary.Name = o.Name + "@" + kf.ID
			canary.Goal = implies(w, o.Goal)
			canary.ExpectFail = true
			kfc := kf
			canary.KF = &kfc
			extra = append(extra, &canary)
			o.Goal = implies(not(w), o.Goal)
			o.Text += "   [outside known finding " + kf.ID + ": !(" + kf.WitnessClass + ")]"
			o.Split = append(o.Split, kf.ID)
		}
		r.obls = append(r.obls, extra...)
		if !matched {
			r.bindErrs = append(r.bindErrs, fmt.Sprintf("known finding %s refers to obligation %s which no longer exists", kf.ID, kf.Obligation))
		}
	}
}

func matchObl(pat, name string) bool {
	if strings.HasSuffix(pat, "*") {
		return strings.HasPrefix(name, strings.TrimSuffix(pat, "*"))
	}
	return pat == name
}

// evalEntry evaluates a spec expression over the function's parameters in the entry state.
func (vc *VC) evalEntry(text string) (string, error) {
	e, err := ParseExpr(text)
	if err != nil {
		return "", err
	}
	var ctx *SpecCtx
	if vc.entryCtx != nil {
		ctx = vc.entryCtx
	} else if vc.top != nil {
		fr := vc.top
		lk := func(name string) (Val, bool) { return vc.paramLookup(fr, name) }
		ctx = &SpecCtx{vc: vc, lookup: lk, st: fr.entrySt, oldSt: fr.entrySt, oldLookup: lk, pkg: fr.fn.Pkg.Pkg}
	} else {
		return "", fmt.Errorf("no entry context")
	}
	nlines := len(vc.lines)
	t, err := ctx.EvalBool(e)
	if len(vc.lines) != nlines {
		return "", fmt.Errorf("witness class must not introduce definitions")
	}
	return t, err
}

// crossCheck: thorough tier — every proved obligation is confirmed by a second solver where one decides it.
func (r *checkRun) crossCheck(timeout int) {
	// every discharged obligation is re-run on the solvers that did not decide it first (16 at a time, 15 s each):
	// a second solver finding a model is a disagreement and fails the run; a second proof is recorded
	if timeout > 15 {
		timeout = 15
	}
	var wg sync.WaitGroup
	sem := make(chan struct{}, 16)
	for _, o := range r.obls {
		if o.Result == nil || o.Result.Status != "unsat" {
			continue
		}
		wg.Add(1)
		go func(o *Obligation) {
			defer wg.Done()
			sem <- struct{}{}
			defer func() { <-sem }()
			var others []string
			for _, s := range solvers {
				if s.name != o.Result.Solver {
					others = append(others, s.name)
				}
			}
			res := Solve(o.Query, timeout, others, false)
			if res.Status == "sat" {
				o.Result.Status = "error"
				o.Result.Output = fmt.Sprintf("SOLVER DISAGREEMENT: %s proved, %s found a model", o.Result.Solver, res.Solver)
			} else if res.Status == "unsat" {
				o.Confirmed = res.Solver
			}
		}(o)
	}
	wg.Wait()
}

func (r *checkRun) report() int {
	id := r.prop.ID
	violations := 0
	var lines []string
	nUnbounded, nDischarged := 0, 0
	var bounded []map[string]interface{}
	byBackend := map[string]int{}
	totalT, maxT := 0.0, 0.0
	covers := 0
	var samples []interface{}
	var kfPrinted []string
	canaries := 0
	var coverUndecided []string
	var reports []oblReport
	sort.SliceStable(r.obls, func(i, j int) bool { return r.obls[i].Name < r.obls[j].Name })
	kfSeen := map[string]bool{}
	for _, o := range r.obls {
		res := o.Result
		rep := oblReport{Name: o.Name, Kind: o.Kind, Clause: o.Text, Pos: o.Pos, Status: res.Status, Solver: res.Solver, TimeS: res.TimeS, SMTSize: len(o.Query), Bounded: o.Bounded}
		reports = append(reports, rep)
		totalT += res.TimeS
		if res.TimeS > maxT {
			maxT = res.TimeS
		}
		if res.Solver != "" {
			byBackend[res.Solver]++
		}
		if o.Kind == "cover" {
			covers++
			if res.Status == "unsat" {
				violations++
				lines = append(lines, r.violation(o, "vacuous precondition: requires clauses are contradictory", nil))
			} else if res.Status != "sat" {
				coverUndecided = append(coverUndecided, o.Name)
			}
			continue
		}
		if o.ExpectFail {
			// canary of a known finding: must still fail
			if res.Status == "unsat" {
				lines = append(lines, fmt.Sprintf("NOTE: known finding %s no longer reproduces (obligation %s now proves); the entry is stale", o.KF.ID, o.Name))
			} else {
				canaries++
				if !kfSeen[o.KF.ID] {
					kfSeen[o.KF.ID] = true
					lines = append(lines, fmt.Sprintf("KNOWN-FINDING: property=%s %s %s", id, o.KF.ID, o.KF.What))
					kfPrinted = append(kfPrinted, o.KF.ID)
				}
			}
			continue
		}
		if o.Bounded > 0 {
			bounded = append(bounded, map[string]interface{}{"obligation": o.Name, "bound": o.Bounded, "result": res.Status})
		} else {
			nUnbounded++
		}
		if res.Status == "unsat" {
			if o.Bounded == 0 {
				nDischarged++
			}
			if len(samples) < 6 {
				samples = append(samples, map[string]interface{}{"obligation": o.Name, "clause": o.Text, "smt_bytes": len(o.Query), "solver": res.Solver, "time_s": res.TimeS})
			}
			continue
		}
		violations++
		lines = append(lines, r.violation(o, "", nil))
	}
	for _, be := range r.bindErrs {
		violations++
		lines = append(lines, r.violationText("binding", be))
	}
	for _, sr := range r.static {
		nUnbounded += sr.Obligations
		nDischarged += sr.Discharged
		byBackend["static:"+sr.Kind] += sr.Discharged
		for _, f := range sr.Failures {
			if kf := r.matchStaticKF(sr, f); kf != nil {
				if !kfSeen[kf.ID] {
					kfSeen[kf.ID] = true
					lines = append(lines, fmt.Sprintf("KNOWN-FINDING: property=%s %s %s", id, kf.ID, kf.What))
					kfPrinted = append(kfPrinted, kf.ID)
				}
				continue
			}
			violations++
			lines = append(lines, r.violationText(sr.Name, f))
		}
		for _, s := range sr.Samples {
			if len(samples) < 10 {
				samples = append(samples, s)
			}
		}
		for _, t := range sr.Trusted {
			r.trusted[t] = true
		}
	}
	if len(r.obls) == 0 && len(r.static) == 0 {
		violations++
		lines = append(lines, r.violationText("vacuity", "no obligations were generated"))
	}
	cov := map[string]interface{}{
		"obligations": nUnbounded, "discharged": nDischarged, "bounded": bounded,
		"known_findings": kfPrinted, "canaries_failed_as_expected": canaries,
		"functions_under_contract": r.funcs, "by_backend": byBackend,
		"solver_time_s": map[string]float64{"total": round2(totalT), "max": round2(maxT)},
		"covers": covers, "covers_undecided": coverUndecided, "samples": samples,
		"deferred_to_thorough": r.deferred,
		"checker_cmd": fmt.Sprintf("bin/pverif check %s --tier %s", id, r.tier),
		"trusted_base": append(sortedSet(r.trusted), "VC generator pverif (this repository) over golang.org/x/tools/go/ssa v0.29.0", "SMT solvers: z3 4.8.12, z3 5.1.0 (z3-new), cvc5 1.0"),
		"unverified_surroundings": r.prop.Surround, "not_decided": r.prop.NotDecided,
		"obligation_list": reports,
	}
	if len(r.static) > 0 {
		var st []interface{}
		for _, sr := range r.static {
			st = append(st, map[string]interface{}{"name": sr.Name, "kind": sr.Kind, "obligations": sr.Obligations, "discharged": sr.Discharged, "detail": sr.Detail})
		}
		cov["static_checks"] = st
	}
	assumptions := append(sortedSet(r.notes), r.prop.Assumes...)
	// what the run trusts (library contracts, assumed contracts, generator and solvers) is also listed under
	// "assumptions", the schema's place for "what the check assumes or trusts"
	for _, t := range cov["trusted_base"].([]string) {
		assumptions = append(assumptions, "trusted: "+t)
	}
	r.writeEvidence(cov, violations, assumptions)
	for _, l := range lines {
		fmt.Println(l)
	}
	fmt.Printf("%s: %d obligations, %d discharged, %d bounded, %d violations, %d known findings, %.1fs\n", id, nUnbounded, nDischarged, len(bounded), violations, len(kfPrinted), time.Since(r.start).Seconds())
	if violations > 0 {
		return 1
	}
	return 0
}

func (r *checkRun) matchStaticKF(sr *StaticResult, failure string) *KnownFinding {
	for i := range r.known.Findings {
		kf := &r.known.Findings[i]
		if kf.Property == r.prop.ID && kf.Obligation == sr.Name && kf.WitnessClass != "" && strings.Contains(failure, kf.WitnessClass) {
			return kf
		}
	}
	return nil
}

func round2(f float64) float64 { return float64(int(f*100+0.5)) / 100 }

func sortedSet(m map[string]bool) []string {
	out := []string{}
	for k := range m {
		out = append(out, k)
	}
	sort.Strings(out)
	return out
}

func (r *checkRun) writeEvidence(cov map[string]interface{}, violations int, assumptions []string) {
	if assumptions == nil {
		assumptions = []string{}
	}
	if cov == nil {
		cov = map[string]interface{}{"obligations": 0, "discharged": 0, "checker_cmd": "bin/pverif check " + r.prop.ID, "trusted_base": []string{}, "explanation": "check could not run"}
	}
	ev := map[string]interface{}{
		"property_id": r.prop.ID, "tier": r.tier, "seed": r.seed, "level": "proof",
		"coverage": cov, "assumptions": assumptions, "wall_s": round2(time.Since(r.start).Seconds()), "violations": violations,
	}
	os.MkdirAll(outDir, 0o755)
	data, _ := json.MarshalIndent(ev, "", " ")
	os.WriteFile(filepath.Join(outDir, r.prop.ID+".json"), data, 0o644)
}

func replayPath(id, name string) string {
	safe := strings.NewReplacer("/", "_", "#", "-", "*", "_", "(", "", ")", "", " ", "_", "$", "_", "@", "-").Replace(name)
	dir := filepath.Join(outDir, "replay")
	os.MkdirAll(dir, 0o755)
	return filepath.Join(dir, id+"-"+safe+".json")
}

func (r *checkRun) violationText(name, reason string) string {
	path := replayPath(r.prop.ID, name)
	data, _ := json.MarshalIndent(map[string]interface{}{"property": r.prop.ID, "obligation": name, "reason": reason, "replay": "none (no solver model): no-failing-input-found"}, "", " ")
	os.WriteFile(path, data, 0o644)
	return fmt.Sprintf("VIOLATION property=%s replay=%s obligation=%s (%s) no-failing-input-found", r.prop.ID, path, name, truncate(reason, 200))
}

// violation: a failed obligation. Try to obtain a model (macro mode) and replay it.
func (r *checkRun) violation(o *Obligation, reason string, _ interface{}) string {
	path := replayPath(r.prop.ID, o.Name)
	rec := map[string]interface{}{
		"property": r.prop.ID, "obligation": o.Name, "kind": o.Kind, "clause": o.Text, "pos": o.Pos,
		"status": o.Result.Status, "solver": o.Result.Solver, "solver_output": truncate(o.Result.Output, 4000), "reason": reason,
	}
	suffix := " no-failing-input-found"
	model := ""
	if o.Result.Status == "sat" {
		model = o.Result.Model
	}
	var mo *Obligation = o
	if model == "" && o.vc != nil && o.Kind != "cover" {
		// retry with spec functions expanded: quantifier-free goals then yield models
		if m, o2 := r.retryMacro(o); m != "" {
			model = m
			mo = o2
			rec["status"] = "sat (spec functions expanded)"
		}
	}
	if model != "" {
		rec["model"] = truncate(model, 20000)
		rp := tryReplay(r, mo, model)
		rec["replay"] = rp
		if rp != nil && rp.Outcome == "reproduced" {
			suffix = ""
		}
	} else {
		rec["replay"] = "none (no solver model): no-failing-input-found"
	}
	data, _ := json.MarshalIndent(rec, "", " ")
	os.WriteFile(path, data, 0o644)
	return fmt.Sprintf("VIOLATION property=%s replay=%s obligation=%s status=%s%s", r.prop.ID, path, o.Name, o.Result.Status, suffix)
}

func (r *checkRun) retryMacro(o *Obligation) (string, *Obligation) {
	if o.vc == nil {
		return "", nil
	}
	var vc2 *VC
	specMacroMode = true
	if o.vc.fn != nil {
		vc2 = GenFunc(r.prog, o.vc.fn, o.vc.fc)
	} else if o.vc.lemma != nil {
		vc2 = GenLemma(r.prog, o.vc.lemmaPkg, o.vc.lemma, o.vc.qname)
	}
	specMacroMode = false
	if vc2 == nil {
		return "", nil
	}
	base := o.Name
	if i := strings.Index(base, "@"); i >= 0 {
		base = base[:i]
	}
	for _, o2 := range vc2.obls {
		if o2.Name == base {
			// re-apply known-finding splits
			for _, kid := range o.Split {
				for _, kf := range r.known.Findings {
					if kf.ID == kid {
						if w, err := vc2.evalEntry(kf.WitnessClass); err == nil {
							o2.Goal = implies(not(w), o2.Goal)
						}
					}
				}
			}
			if o.KF != nil && o.KF.WitnessClass != "" {
				if w, err := vc2.evalEntry(o.KF.WitnessClass); err == nil {
					o2.Goal = implies(w, o2.Goal)
				}
			}
			q := vc2.Query(o2, true)
			res := Solve(q, 20, nil, false)
			if res.Status == "sat" {
				o2.Result = res
				o2.Query = q
				return res.Model, o2
			}
		}
	}
	return "", nil
}
