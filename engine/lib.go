package main

// Library of external (standard library) contracts. Each model is as weak as
// soundness allows; every model used in a run is listed in that run's trusted base.

import (
	"fmt"
	"regexp"
	"go/token"
	"go/types"
	"strings"

	"golang.org/x/tools/go/ssa"
)

const tokLSS = token.LSS

var deterministicPrefixes = []string{"strings.", "strconv.", "math.", "unicode.", "unicode/utf8.", "path/filepath.", "path.", "math/bits.", "html.", "net/url.QueryEscape", "net/url.PathEscape", "github.com/ianlancetaylor/demangle.Filter"}

func valueLike(t types.Type) bool {
	switch u := t.Underlying().(type) {
	case *types.Basic:
		return u.Kind() != types.UnsafePointer
	case *types.Struct:
		for i := 0; i < u.NumFields(); i++ {
			if !valueLike(u.Field(i).Type()) {
				return false
			}
		}
		return true
	}
	return false
}

func (vc *VC) libCall(fr *frame, n *Node, x *ssa.Call, callee *ssa.Function, args []Val) bool {
	if callee.Pkg != nil && strings.HasPrefix(callee.Pkg.Pkg.Path(), modPath) {
		return false
	}
	e := vc.enc
	full := callee.String()
	sig := callee.Signature
	st := n.st
	trust := func(what string) { e.trusted["library contract: "+what] = true }
	boolT := types.Typ[types.Bool]
	_ = boolT
	nonNilErr := func(v string) string { return not(fmt.Sprintf("(= %s nil.iface)", v)) }
	switch full {
	case "(*sync.Mutex).Lock", "(*sync.Mutex).Unlock", "(*sync.RWMutex).Lock", "(*sync.RWMutex).Unlock", "(*sync.RWMutex).RLock", "(*sync.RWMutex).RUnlock",
		"(*sync.WaitGroup).Add", "(*sync.WaitGroup).Done":
		trust("sync primitives have no effect on modelled memory (mutual exclusion and happens-before are the lock/spawn rules' assumptions)")
		vc.bindResult(n, x, sig, nil)
		return true
	case "(*sync.Once).Do":
		// the function passed to Do may run here: its writes become visible (havoc of its modification set)
		trust("sync.Once.Do(f): f runs at most once, at some call of Do; its writes are havoced at every call")
		ms := &ModSet{all: true}
		if len(x.Call.Args) == 2 {
			var f *ssa.Function
			switch v := x.Call.Args[1].(type) {
			case *ssa.MakeClosure:
				f, _ = v.Fn.(*ssa.Function)
			case *ssa.Function:
				f = v
			}
			if f != nil {
				ms = vc.prog.ModSetOf(f)
			}
		}
		vc.havocMods(n, ms)
		vc.bindResult(n, x, sig, nil)
		return true
	case "(*sync.WaitGroup).Wait":
		trust("sync.WaitGroup.Wait: writes of spawned goroutines become visible here")
		if fr.goMods != nil {
			type kept struct {
				ptr string
				typ types.Type
				val string
			}
			var keep []kept
			seen := map[ssa.Value]bool{}
			for _, b := range fr.goReadOnly {
				if seen[b] {
					continue
				}
				seen[b] = true
				// the parent must not have handed the cell to anything but closures either
				parentOnly := true
				if refs := b.Referrers(); refs != nil {
					for _, r := range *refs {
						switch rr := r.(type) {
						case *ssa.DebugRef:
						case *ssa.MakeClosure:
							// every closure capturing the cell only loads from it
							cf, _ := rr.Fn.(*ssa.Function)
							if cf == nil || len(cf.AnonFuncs) > 0 {
								parentOnly = false
								break
							}
							for i, bb := range rr.Bindings {
								if bb != b || i >= len(cf.FreeVars) {
									continue
								}
								if frefs := cf.FreeVars[i].Referrers(); frefs != nil {
									for _, fr2 := range *frefs {
										if u, ok := fr2.(*ssa.UnOp); !ok || u.Op != token.MUL {
											parentOnly = false
										}
									}
								}
							}
						case *ssa.Store:
							if rr.Addr != b {
								parentOnly = false
							}
						case *ssa.UnOp:
						default:
							parentOnly = false
						}
					}
				}
				if !parentOnly {
					continue
				}
				pv := vc.value(fr, n, b)
				et := b.Type().Underlying().(*types.Pointer).Elem()
				if !isCellType(et) {
					continue
				}
				keep = append(keep, kept{pv.T, et, vc.load(st, pv.T, et)})
			}
			vc.havocMods(n, fr.goMods)
			for _, k := range keep {
				vc.store(n.st, k.ptr, k.typ, k.val)
			}
		}
		vc.bindResult(n, x, sig, nil)
		return true
	case "math.Round", "math.Abs", "math.Floor", "math.Ceil", "math.Trunc", "math.Sqrt":
		op := map[string]string{"math.Round": "(fp.roundToIntegral RNA %s)", "math.Abs": "(fp.abs %s)", "math.Floor": "(fp.roundToIntegral RTN %s)",
			"math.Ceil": "(fp.roundToIntegral RTP %s)", "math.Trunc": "(fp.roundToIntegral RTZ %s)", "math.Sqrt": "(fp.sqrt RNE %s)"}[full]
		trust(full + " = IEEE-754 operation")
		vc.defVal(n, x, fmt.Sprintf(op, args[0].T))
		return true
	case "math.Exp", "math.Log", "math.Log2", "math.Pow", "math.Log10":
		trust(full + ": uninterpreted function (only the structure of formulas using it is checked)")
		name := "spec.f" + strings.ToLower(strings.TrimPrefix(full, "math."))
		var sorts, ts []string
		for _, a := range args {
			sorts = append(sorts, e.sortOf(a.Typ))
			ts = append(ts, a.T)
		}
		vc.defVal(n, x, e.uf(name, sorts, fp64, ts...))
		return true
	case "math.Max", "math.Min":
		// Go: NaN if either is NaN; +Inf/-Inf rules; signed zeros
		trust(full + " per Go documentation (NaN propagation, signed zeros)")
		a, b := args[0].T, args[1].T
		var r string
		if full == "math.Max" {
			r = fmt.Sprintf("(ite (or (fp.isNaN %s) (fp.isNaN %s)) (_ NaN 11 53) (ite (and (fp.isZero %s) (fp.isZero %s)) (ite (fp.isNegative %s) %s %s) (ite (fp.gt %s %s) %s %s)))", a, b, a, b, a, b, a, a, b, a, b)
		} else {
			r = fmt.Sprintf("(ite (or (fp.isNaN %s) (fp.isNaN %s)) (_ NaN 11 53) (ite (and (fp.isZero %s) (fp.isZero %s)) (ite (fp.isNegative %s) %s %s) (ite (fp.lt %s %s) %s %s)))", a, b, a, b, a, a, b, a, b, a, b)
		}
		vc.defVal(n, x, r)
		return true
	case "math.IsNaN":
		vc.defVal(n, x, fmt.Sprintf("(fp.isNaN %s)", args[0].T))
		return true
	case "math.IsInf":
		sgn := args[1].T
		var pos, neg string
		if e.isBV(args[1].Typ) {
			pos, neg = fmt.Sprintf("(bvsge %s (_ bv0 64))", sgn), fmt.Sprintf("(bvsle %s (_ bv0 64))", sgn)
		} else {
			pos, neg = fmt.Sprintf("(>= %s 0)", sgn), fmt.Sprintf("(<= %s 0)", sgn)
		}
		vc.defVal(n, x, fmt.Sprintf("(and (fp.isInfinite %s) (or (and %s (fp.isPositive %s)) (and %s (fp.isNegative %s))))", args[0].T, pos, args[0].T, neg, args[0].T))
		return true
	case "strings.HasPrefix", "strings.HasSuffix":
		fn := "strhasprefix"
		if full == "strings.HasSuffix" {
			fn = "strhassuffix"
		}
		trust(full + ": uninterpreted predicate with len(prefix) <= len(s), every string has the empty prefix and itself")
		e.addPre(fn, fmt.Sprintf("(declare-fun %s (Str Str) Bool)", fn))
		e.addPre(fn+".ax", fmt.Sprintf("(assert (forall ((s Str) (p Str)) (! (=> (%s s p) %s) :pattern ((%s s p)))))\n(assert (forall ((s Str)) (! (%s s strempty) :pattern ((%s s strempty)))))\n(assert (forall ((s Str)) (! (%s s s) :pattern ((%s s s)))))",
			fn, e.sle("(strlen p)", "(strlen s)"), fn, fn, fn, fn, fn))
		vc.defVal(n, x, fmt.Sprintf("(%s %s %s)", fn, args[0].T, args[1].T))
		return true
	case "strings.TrimPrefix":
		trust("strings.TrimPrefix: s[len(p):] if HasPrefix(s,p) else s")
		e.addPre("strhasprefix", "(declare-fun strhasprefix (Str Str) Bool)")
		sub := vc.strSub(args[0].T, fmt.Sprintf("(strlen %s)", args[1].T), fmt.Sprintf("(strlen %s)", args[0].T))
		vc.defVal(n, x, fmt.Sprintf("(ite (strhasprefix %s %s) %s %s)", args[0].T, args[1].T, sub, args[0].T))
		return true
	case "github.com/ianlancetaylor/demangle.Filter":
		trust("demangle.Filter: returns its argument when it cannot demangle it, otherwise a non-empty demangled form (non-empty result for a non-empty argument)")
		rs := vc.freshResults(n, x.Name(), sig)
		vc.assume(fmt.Sprintf("(=> (> (strlen %s) 0) (> (strlen %s) 0))", args[0].T, rs[0].T))
		vc.bindResult(n, x, sig, rs)
		return true
	case "strings.Index", "strings.LastIndex", "strings.IndexByte", "strings.LastIndexByte", "strings.IndexRune", "strings.IndexAny", "strings.LastIndexAny", "bytes.IndexByte", "bytes.Index", "bytes.LastIndex", "bytes.LastIndexByte", "bytes.IndexAny", "bytes.IndexRune":
		// documented: -1 when absent, otherwise an index at which the (non-empty) needle fits inside the haystack
		trust(full + ": result is -1 or an index i with 0 <= i and i + len(needle) <= len(haystack) (i < len for a single byte or rune)")
		rs := vc.freshResults(n, x.Name(), sig)
		r := vc.toI(rs[0])
		var hl string
		if isString(args[0].Typ) {
			hl = fmt.Sprintf("(strlen %s)", args[0].T)
		} else {
			hl = sLen(args[0].T)
		}
		need := "1"
		switch {
		case strings.HasSuffix(full, ".Index") || strings.HasSuffix(full, ".LastIndex"):
			if isString(args[1].Typ) {
				need = fmt.Sprintf("(strlen %s)", args[1].T)
			} else {
				need = sLen(args[1].T)
			}
		}
		vc.assume(fmt.Sprintf("(or (= %s (- 1)) (and (<= 0 %s) (<= (+ %s %s) %s)))", r, r, r, need, hl))
		if need == "1" {
			vc.assume(fmt.Sprintf("(< %s %s)", r, hl))
		}
		vc.bindResult(n, x, sig, rs)
		return true
	case "strings.Split", "strings.SplitN", "strings.SplitAfter", "strings.SplitAfterN":
		// documented: Split(s, sep) with a non-empty separator returns at least one element; SplitN with n > 0 at most
		// n; n == 0 returns nil. (an empty separator explodes the string: then the result may be empty for s == "")
		trust(full + ": with a non-empty separator the result has at least one element (SplitN: between 1 and n elements for n > 0, nil for n == 0)")
		rs := vc.freshResults(n, x.Name(), sig)
		wm := vc.decl("wm.c", "Int")
		vc.assume(fmt.Sprintf("(>= %s %s)", wm, st.wm))
		st.wm = wm
		l := sLen(rs[0].T)
		sepNonEmpty := fmt.Sprintf("(>= (strlen %s) 1)", args[1].T)
		if strings.HasSuffix(full, "N") {
			nn := vc.toI(args[2])
			vc.assume(fmt.Sprintf("(=> (= %s 0) (= %s 0))", nn, l))
			vc.assume(fmt.Sprintf("(=> (and %s (not (= %s 0))) (>= %s 1))", sepNonEmpty, nn, l))
			vc.assume(fmt.Sprintf("(=> (> %s 0) (<= %s %s))", nn, l, nn))
		} else {
			vc.assume(fmt.Sprintf("(=> %s (>= %s 1))", sepNonEmpty, l))
		}
		vc.bindResult(n, x, sig, rs)
		return true
	case "(*regexp.Regexp).FindString":
		trust("(*regexp.Regexp).FindString: the result is a substring (no longer than the argument)")
		rs := vc.freshResults(n, x.Name(), sig)
		vc.assume(fmt.Sprintf("(<= (strlen %s) (strlen %s))", rs[0].T, args[1].T))
		vc.bindResult(n, x, sig, rs)
		return true
	case "strings.Fields":
		trust("strings.Fields: every returned field is non-empty")
		rs := vc.freshResults(n, x.Name(), sig)
		r := rs[0].T
		wm := vc.decl("wm.c", "Int")
		vc.assume(fmt.Sprintf("(>= %s %s)", wm, st.wm))
		st.wm = wm
		strT := sig.Results().At(0).Type().Underlying().(*types.Slice).Elem()
		vc.emit(fmt.Sprintf("(assert (forall ((j Int)) (! (=> (and (<= 0 j) (< j (s.len %s))) (>= (strlen %s) 1)) :pattern (%s))))", r, vc.load(st, e.elemPtr(r, "j"), strT), e.elemPtr(r, "j")))
		vc.bindResult(n, x, sig, rs)
		return true
	case "fmt.Errorf", "errors.New":
		trust(full + " returns a non-nil error")
		rs := vc.freshResults(n, x.Name(), sig)
		vc.assume(nonNilErr(rs[0].T))
		vc.bindResult(n, x, sig, rs)
		return true
	case "sort.Strings", "sort.Ints", "sort.Sort", "sort.Stable", "sort.Slice", "sort.SliceStable":
		trust(full + ": permutes the elements of its argument (contents havoced, header unchanged)")
		ms := newModSet()
		if sl, ok := args[0].Typ.Underlying().(*types.Slice); ok {
			ms.addCellsOf(sl.Elem())
		} else {
			ms.all = true
		}
		vc.havocMods(n, ms)
		vc.bindResult(n, x, sig, nil)
		return true
	case "strconv.FormatInt", "strconv.FormatUint":
		// deterministic and injective in the number for a fixed base (digits never contain separators)
		trust(full + ": deterministic, injective in its numeric argument for a fixed base")
		fn := e.declFmtNum(full, args[0].Typ)
		vc.defVal(n, x, fmt.Sprintf("(%s %s %s)", fn, args[0].T, args[1].T))
		return true
	case "strings.Join":
		// Join(parts, sep): a function of the sequence of parts; injective on sequences whose parts
		// do not contain the separator (assumption, true for the numeric parts it is used on here)
		trust("strings.Join: function of the part sequence, injective on it (parts assumed free of the separator)")
		e.declJoin()
		arr := vc.decl("join.parts", "(Array Int Str)")
		elem := args[0].Typ.Underlying().(*types.Slice).Elem()
		vc.emit(fmt.Sprintf("(assert (forall ((j Int)) (! (=> (and (<= 0 j) (< j %s)) (= (select %s j) %s)) :pattern ((select %s j)))))", sLen(args[0].T), arr, vc.load(st, e.elemPtr(args[0].T, "j"), elem), arr))
		vc.defVal(n, x, fmt.Sprintf("(strjoin %s %s %s)", arr, sLen(args[0].T), args[1].T))
		return true
	case "fmt.Sprint":
		// single-argument Sprint: a deterministic function of the (boxed) value; injectivity is a listed assumption
		if tl := sLen(args[0].T); tl == "1" {
			trust("fmt.Sprint(v) for a single argument: deterministic AND injective function of the value (assumption; not exact when names contain spaces)")
			elem := args[0].Typ.Underlying().(*types.Slice).Elem()
			iv := vc.load(st, e.elemPtr(args[0].T, "0"), elem)
			e.addPre("fmt.sprint1", "(declare-fun fmt.sprint1 (Iface) Str)\n(declare-fun fmt.sprint1.inv (Str) Iface)\n(assert (forall ((x Iface)) (! (= (fmt.sprint1.inv (fmt.sprint1 x)) x) :pattern ((fmt.sprint1 x)))))")
			vc.defVal(n, x, fmt.Sprintf("(fmt.sprint1 %s)", iv))
			return true
		}
		return false
	case "regexp.Compile":
		trust("regexp.Compile: returns a non-nil *Regexp exactly when the error is nil; never panics")
		rs := vc.freshResults(n, x.Name(), sig)
		vc.assume(fmt.Sprintf("(= (= %s nil.iface) (not (= (p.obj %s) 0)))", rs[1].T, rs[0].T))
		wm := vc.decl("wm.c", "Int")
		vc.assume(fmt.Sprintf("(>= %s %s)", wm, st.wm))
		st.wm = wm
		vc.bindResult(n, x, sig, rs)
		return true
	case "(*regexp.Regexp).FindStringSubmatch", "(*regexp.Regexp).FindAllStringSubmatch", "(*regexp.Regexp).FindStringSubmatchIndex":
		// result is nil or (each element) has 1+NumSubexp entries (2*(1+NumSubexp) for the Index form);
		// NumSubexp is read off the pattern when the receiver is a package variable set by MustCompile(constant)
		trust(full + ": nil or slices of length 1+NumSubexp (NumSubexp from the constant pattern, else an unknown non-negative number)")
		nsub := vc.regexpGroups(x.Call.Args[0])
		var want string
		if nsub >= 0 {
			want = fmt.Sprint(nsub + 1)
		} else {
			want = "(+ 1 " + e.uf("re.nsub", []string{"Ptr"}, "Int", args[0].T) + ")"
			vc.assume(fmt.Sprintf("(>= %s 0)", e.uf("re.nsub", []string{"Ptr"}, "Int", args[0].T)))
		}
		if strings.HasSuffix(full, "Index") {
			want = "(* 2 " + want + ")"
		}
		rs := vc.freshResults(n, x.Name(), sig)
		r := rs[0].T
		wm := vc.decl("wm.c", "Int")
		vc.assume(fmt.Sprintf("(>= %s %s)", wm, st.wm))
		st.wm = wm
		if strings.Contains(full, "FindAll") {
			// [][]string: every element has the group count; at most n elements when n >= 0
			inner := sig.Results().At(0).Type().Underlying().(*types.Slice).Elem()
			vc.emit(fmt.Sprintf("(assert (forall ((j Int)) (! (=> (and (<= 0 j) (< j (s.len %s))) (= (s.len %s) %s)) :pattern (%s))))", r, vc.load(st, e.elemPtr(r, "j"), inner), want, e.elemPtr(r, "j")))
			if len(args) > 2 {
				vc.assume(fmt.Sprintf("(=> (>= %s 0) (<= (s.len %s) %s))", args[2].T, r, args[2].T))
			}
		} else {
			vc.assume(fmt.Sprintf("(or (= (s.arr %s) 0) (= (s.len %s) %s))", r, r, want))
		}
		vc.bindResult(n, x, sig, rs)
		return true
	case "(*regexp.Regexp).MatchString":
		trust("regexp match = an arbitrary but fixed predicate of (pattern object, string)")
		vc.defVal(n, x, e.uf("re.match", []string{"Ptr", "Str"}, "Bool", args[0].T, args[1].T))
		return true
	}
	if callee.Blocks != nil && !isPureExtern(full) {
		return false // library function with a body and unknown purity: fall through to mod-set handling
	}
	if isPureExtern(full) || callee.Blocks == nil {
		det := false
		for _, p := range deterministicPrefixes {
			if strings.HasPrefix(full, p) {
				det = true
			}
		}
		for _, a := range args {
			if !valueLike(a.Typ) {
				det = false
			}
		}
		if !isPureExtern(full) {
			// external with effects on its arguments
			ms := newModSet()
			vc.prog.computeModSet(callee, ms, map[*ssa.Function]bool{})
			vc.havocMods(n, ms)
			trust(full + ": unconstrained result, writes through pointer/slice arguments")
			vc.bindResult(n, x, sig, vc.freshResults(n, x.Name(), sig))
			return true
		}
		if det && sig.Results().Len() > 0 {
			trust(full + ": deterministic function of its arguments, otherwise unconstrained")
			var sorts, ts []string
			for _, a := range args {
				sorts = append(sorts, e.sortOf(a.Typ))
				ts = append(ts, a.T)
			}
			var outs []Val
			for i := 0; i < sig.Results().Len(); i++ {
				rt := sig.Results().At(i).Type()
				fn := fmt.Sprintf("ext.%s.%d", sanitize(full), i)
				if !valueLike(rt) && !isErrorType(rt) {
					v := vc.decl(x.Name(), e.sortOf(rt))
					vc.assume(e.wellFormed(v, rt, st.wm))
					outs = append(outs, Val{T: v, Typ: rt})
					continue
				}
				t := e.uf(fn, sorts, e.sortOf(rt), ts...)
				v := vc.def(x.Name(), e.sortOf(rt), t)
				vc.assume(e.wellFormed(v, rt, st.wm))
				outs = append(outs, Val{T: v, Typ: rt})
			}
			// allocation may happen
			vc.bindResult(n, x, sig, outs)
			return true
		}
		trust(full + ": pure, unconstrained result")
		wm := vc.decl("wm.c", "Int")
		vc.assume(fmt.Sprintf("(>= %s %s)", wm, st.wm))
		st.wm = wm
		vc.bindResult(n, x, sig, vc.freshResults(n, x.Name(), sig))
		return true
	}
	return false
}

func isErrorType(t types.Type) bool {
	n, ok := t.(*types.Named)
	return ok && n.Obj().Pkg() == nil && n.Obj().Name() == "error"
}

func sanitize(s string) string {
	var sb strings.Builder
	for _, r := range s {
		if (r >= 'a' && r <= 'z') || (r >= 'A' && r <= 'Z') || (r >= '0' && r <= '9') || r == '.' || r == '_' {
			sb.WriteRune(r)
		} else {
			sb.WriteRune('_')
		}
	}
	return sb.String()
}

// declFmtNum declares the model of strconv.FormatInt / FormatUint.
func (e *Encoder) declFmtNum(full string, argT types.Type) string {
	fn := "fmtnum." + sanitize(full)
	srt := e.sortOf(argT)
	e.addPre(fn, fmt.Sprintf("(declare-fun %s (%s Int) Str)", fn, srt))
	e.addPre(fn+".inv", fmt.Sprintf("(declare-fun %s.inv (Str) %s)", fn, srt))
	e.addPre(fn+".ax", fmt.Sprintf("(assert (forall ((x %s) (b Int)) (! (and (= (%s.inv (%s x b)) x) (> (strlen (%s x b)) 0)) :pattern ((%s x b)))))", srt, fn, fn, fn, fn))
	return fn
}

// declJoin declares the model of strings.Join.
func (e *Encoder) declJoin() {
	e.addPre("strjoin", "(declare-fun strjoin ((Array Int Str) Int Str) Str)")
	e.addPre("strjoin.len", "(declare-fun strjoin.len (Str) Int)")
	e.addPre("strjoin.part", "(declare-fun strjoin.part (Str Int) Str)")
	e.addPre("strjoin.ax", "(assert (forall ((a (Array Int Str)) (n Int) (s Str)) (! (=> (>= n 0) (= (strjoin.len (strjoin a n s)) n)) :pattern ((strjoin a n s)))))\n"+
		"(assert (forall ((a (Array Int Str)) (n Int) (s Str) (j Int)) (! (=> (and (<= 0 j) (< j n)) (= (strjoin.part (strjoin a n s) j) (select a j))) :pattern ((strjoin.part (strjoin a n s) j)))))")
}

// regexpGroups: number of capture groups of the pattern a regexp value was compiled from, when the value
// is a load of a package-level variable initialised by regexp.MustCompile(<constant>); -1 otherwise.
func (vc *VC) regexpGroups(v ssa.Value) int {
	u, ok := v.(*ssa.UnOp)
	if !ok {
		return -1
	}
	g, ok := u.X.(*ssa.Global)
	if !ok || g.Pkg == nil {
		return -1
	}
	initFn := g.Pkg.Func("init")
	if initFn == nil {
		return -1
	}
	count := 0
	res := -1
	for _, b := range initFn.Blocks {
		for _, in := range b.Instrs {
			st, ok := in.(*ssa.Store)
			if !ok || st.Addr != g {
				continue
			}
			count++
			call, ok := st.Val.(*ssa.Call)
			if !ok {
				return -1
			}
			callee := call.Call.StaticCallee()
			if callee == nil || (callee.String() != "regexp.MustCompile") {
				return -1
			}
			c, ok := call.Call.Args[0].(*ssa.Const)
			if !ok || c.Value == nil {
				return -1
			}
			re, err := regexp.Compile(constString(c.Value))
			if err != nil {
				return -1
			}
			res = re.NumSubexp()
		}
	}
	// the variable must not be assigned anywhere else in the package
	if count != 1 {
		return -1
	}
	for _, m := range g.Pkg.Members {
		f, ok := m.(*ssa.Function)
		if !ok || f == initFn {
			continue
		}
		for _, b := range f.Blocks {
			for _, in := range b.Instrs {
				if st, ok := in.(*ssa.Store); ok && st.Addr == g {
					return -1
				}
			}
		}
	}
	return res
}
