#!/bin/bash
# usage: run.sh <pkg-rel> <test-file> [-run regexp]   -- runs a demonstration test against /repo via go test -overlay
set -e
pkg=$1; file=$(readlink -f $2); shift 2
ov=$(mktemp /tmp/ov.XXXXXX.json)
printf '{"Replace":{"/repo/%s/zz_verif_finding_test.go":"%s"}}' "$pkg" "$file" > $ov
cd /repo && GOFLAGS=-mod=mod GOPROXY=off GOSUMDB=off GOTOOLCHAIN=local go test -overlay $ov -vet=off -count=1 -timeout 60s -run 'TestVerifFinding' "$@" ./$pkg; rc=$?
rm -f $ov; exit $rc
