package main

// Parser for the //@ contract files (/repo/<pkg>/zz_verif_contracts.go).

import (
	"fmt"
	"os"
	"regexp"
	"strconv"
	"strings"
)

type Clause struct {
	Applied, Skipped int // step clauses: back edges at which the clause could / could not be evaluated
	Kind  string // requires ensures invariant decreases assert modifies
	Label string
	Text  string
	E     Expr
	Line  int
}

// MustCall: `mustcall <callee> [label:] <argcond> when <cond>` in a loop block — in every iteration that reaches a
// back edge with <cond> true (evaluated over the variables as they are at the end of the iteration), <callee> was
// called during this iteration with arguments satisfying <argcond> ($argN; receiver first). Calls made inside an
// inner loop are not seen (the flag is cut with the inner loop): use it for calls at the level of the loop body.
type MustCall struct {
	Callee  string
	Label   string
	ArgCond Expr
	When    Expr
	Text    string
	Line    int
	Hits    int
	Applied int
	Skipped int
}

type LoopContract struct {
	Ordinal    int
	Hint       string
	MustCalls  []*MustCall
	// Steps: `step [label:] expr` — a transition clause: an obligation at every back edge of the loop, over the
	// variables as they are at the end of the iteration; atiter(k, e) and iter(x) give access to the state and the
	// loop-carried variables at the header in the same iteration. Not assumed anywhere (a per-iteration postcondition).
	Steps      []*Clause
	Invariants []*Clause
	Decreases  *Clause
	Unroll     int // >0: unroll this loop fully N times with unwinding assertion
}

type FuncContract struct {
	Name     string // "GetBase", "Node.addSample", "Merge$1"
	Pkg      string // package path
	Arith    string // "bv" or "int"
	Inline   bool
	Pure     bool
	Bounded  int
	NoSafety bool // functional clauses only
	Extern   bool // assumed contract on a function outside the verified set
	Trusted  string
	Requires []*Clause
	Uses     []string // global invariants assumed at entry: "<pkg name>.<label of an ensures of that package's init>"
	Ensures  []*Clause
	Modifies []string
	Loops    []*LoopContract
	Asserts  []*Clause
	MustCalls []*MustCall // function level: at every return where `when` holds, the callee was called on the path
	AtReturns []*Clause   // obligations at return statements (where the clause's variables are in scope)
	CallSites []*CallSite // obligations at every call of a named callee inside this function
	Options  map[string]string
	File     string
	Line     int
}

type SpecFunc struct {
	Pkg       string // package path of the contract file that declares it
	Macro     bool // always expanded inline
	Name      string
	Params    []QVar
	Result    *TypeExpr
	Body      Expr // nil => uninterpreted
	Decreases Expr
	Text      string
	Line      int
}

type LemmaStep struct {
	Kind    string // assume, call, conclude
	Label   string
	Text    string
	E       Expr
	Results []string // call: result variable names
	Callee  string   // call: contract name (pkg-local) or pkgrel:Name
	Args    []Expr
	Line    int
}

type Lemma struct {
	Vars   []QVar
	Steps  []*LemmaStep
	Name   string
	Arith  string
	Text   string
	E      Expr
	Axiom  bool // assumed, listed in trusted base
	Uses   []string
	Line   int
	Pkg    string
	Opts   map[string]string
}

// CallSite: `callsite <callee> [label:] expr` — expr over the caller's variables and $arg0.. (the call's arguments)
type CallSite struct {
	Callee string
	C      *Clause
	Hits   int
}

type ContractFile struct {
	Pkg    string
	Path   string
	Funcs  map[string]*FuncContract
	Order  []string
	Specs  map[string]*SpecFunc
	SpecOrder []string
	Lemmas map[string]*Lemma
	LemmaOrder []string
	NClauses int
}

var keywordRe = regexp.MustCompile(`^(func|extern|spec|pred|lemma|axiom|requires|ensures|atreturn|invariant|step|mustcall|decreases|loop|modifies|assert|trusted|vars|assume|call|exec|conclude|uses|use|let|callsite|order|elems|recv|wf|less|key)\b`)
var labelRe = regexp.MustCompile(`^([A-Za-z_][A-Za-z0-9_.]*):([^:].*)$`)

func ParseContractFile(path, pkg string) (*ContractFile, error) {
	data, err := os.ReadFile(path)
	if err != nil {
		return nil, err
	}
	cf := &ContractFile{Pkg: pkg, Path: path, Funcs: map[string]*FuncContract{}, Specs: map[string]*SpecFunc{}, Lemmas: map[string]*Lemma{}}
	type rawLine struct {
		text string
		line int
	}
	var items []rawLine
	for i, ln := range strings.Split(string(data), "\n") {
		t := strings.TrimSpace(ln)
		if !strings.HasPrefix(t, "//@") {
			continue
		}
		body := strings.TrimSpace(strings.TrimPrefix(t, "//@"))
		if body == "" || strings.HasPrefix(body, "#") {
			continue
		}
		if keywordRe.MatchString(body) {
			items = append(items, rawLine{body, i + 1})
		} else {
			if len(items) == 0 {
				return nil, fmt.Errorf("%s:%d: continuation without clause", path, i+1)
			}
			items[len(items)-1].text += " " + body
		}
	}
	// expand "order" blocks (strict-total-order laws of a comparator) into four lemmas each
	{
		var out []rawLine
		for i := 0; i < len(items); i++ {
			it := items[i]
			if !strings.HasPrefix(it.text, "order ") {
				out = append(out, it)
				continue
			}
			head := strings.TrimSpace(strings.TrimPrefix(it.text, "order"))
			var elemT, recv, wf, less, key string
			j := i + 1
			for ; j < len(items); j++ {
				t := items[j].text
				switch {
				case strings.HasPrefix(t, "elems "):
					elemT = strings.TrimSpace(strings.TrimPrefix(t, "elems"))
				case strings.HasPrefix(t, "recv "):
					recv = strings.TrimSpace(strings.TrimPrefix(t, "recv"))
				case strings.HasPrefix(t, "wf "):
					wf = strings.TrimSpace(strings.TrimPrefix(t, "wf"))
				case strings.HasPrefix(t, "less "):
					less = strings.TrimSpace(strings.TrimPrefix(t, "less"))
				case strings.HasPrefix(t, "key "):
					key = strings.TrimSpace(strings.TrimPrefix(t, "key"))
				default:
					goto done
				}
			}
		done:
			i = j - 1
			hf := strings.Fields(head)
			name := hf[0]
			opts := strings.Join(hf[1:], " ")
			if elemT == "" || less == "" || key == "" {
				return nil, fmt.Errorf("%s:%d: order %s needs elems, less and key", path, it.line, name)
			}
			sub := func(t, x, y string) string {
				return strings.ReplaceAll(strings.ReplaceAll(t, "$x", x), "$y", y)
			}
			mk := func(law string, vars []string, calls [][2]string, concl string) {
				out = append(out, rawLine{fmt.Sprintf("lemma %s.%s %s", name, law, opts), it.line})
				vs := ""
				for k, v := range vars {
					if k > 0 {
						vs += ", "
					}
					vs += v + " " + elemT
				}
				if recv != "" {
					vs = recv + ", " + vs
				}
				out = append(out, rawLine{"vars " + vs, it.line})
				if wf != "" {
					for _, v := range vars {
						out = append(out, rawLine{"assume " + sub(wf, v, v), it.line})
					}
				}
				for k, c := range calls {
					args := c[0] + ", " + c[1]
					if recv != "" {
						args = strings.Fields(recv)[0] + ", " + args
					}
					out = append(out, rawLine{fmt.Sprintf("exec r%d := %s(%s)", k, less, args), it.line})
				}
				out = append(out, rawLine{"conclude " + law + ": " + concl, it.line})
			}
			mk("irreflexive", []string{"a"}, [][2]string{{"a", "a"}}, "!r0")
			mk("asymmetric", []string{"a", "b"}, [][2]string{{"a", "b"}, {"b", "a"}}, "!(r0 && r1)")
			mk("transitive", []string{"a", "b", "c"}, [][2]string{{"a", "b"}, {"b", "c"}, {"a", "c"}}, "r0 && r1 ==> r2")
			mk("total", []string{"a", "b"}, [][2]string{{"a", "b"}, {"b", "a"}}, "!r0 && !r1 ==> "+sub(key, "a", "b"))
		}
		items = out
	}
	var cur *FuncContract
	var curLoop *LoopContract
	var curLemma *Lemma
	parseClause := func(kind, rest string, line int) (*Clause, error) {
		c := &Clause{Kind: kind, Line: line}
		rest = strings.TrimSpace(rest)
		if m := labelRe.FindStringSubmatch(rest); m != nil {
			c.Label = m[1]
			rest = strings.TrimSpace(m[2])
		}
		c.Text = rest
		e, err := ParseExpr(rest)
		if err != nil {
			return nil, fmt.Errorf("%s:%d: %v", path, line, err)
		}
		c.E = e
		cf.NClauses++
		return c, nil
	}
	for _, it := range items {
		kw := keywordRe.FindString(it.text)
		rest := strings.TrimSpace(it.text[len(kw):])
		switch kw {
		case "func", "extern":
			f := strings.Fields(rest)
			if kw == "extern" && len(f) > 0 && f[0] == "func" {
				f = f[1:]
			}
			if len(f) == 0 {
				return nil, fmt.Errorf("%s:%d: func needs a name", path, it.line)
			}
			cur = &FuncContract{Name: f[0], Pkg: pkg, Arith: "int", File: path, Line: it.line, Options: map[string]string{}, Extern: kw == "extern"}
			curLoop = nil
			curLemma = nil
			for i := 1; i < len(f); i++ {
				switch f[i] {
				case "arith":
					i++
					cur.Arith = f[i]
				case "inline":
					cur.Inline = true
				case "pure":
					cur.Pure = true
				case "nosafety":
					cur.NoSafety = true
				case "bounded":
					i++
					cur.Bounded, _ = strconv.Atoi(f[i])
				default:
					if strings.Contains(f[i], "=") {
						kv := strings.SplitN(f[i], "=", 2)
						cur.Options[kv[0]] = kv[1]
					} else {
						return nil, fmt.Errorf("%s:%d: unknown func option %q", path, it.line, f[i])
					}
				}
			}
			if _, dup := cf.Funcs[cur.Name]; dup {
				return nil, fmt.Errorf("%s:%d: duplicate contract for %s", path, it.line, cur.Name)
			}
			cf.Funcs[cur.Name] = cur
			cf.Order = append(cf.Order, cur.Name)
		case "requires", "ensures", "assert":
			if cur == nil {
				return nil, fmt.Errorf("%s:%d: clause outside func", path, it.line)
			}
			c, err := parseClause(kw, rest, it.line)
			if err != nil {
				return nil, err
			}
			switch kw {
			case "requires":
				cur.Requires = append(cur.Requires, c)
			case "ensures":
				cur.Ensures = append(cur.Ensures, c)
			case "assert":
				cur.Asserts = append(cur.Asserts, c)
			}
		case "callsite":
			if cur == nil {
				return nil, fmt.Errorf("%s:%d: callsite outside func", path, it.line)
			}
			f := strings.SplitN(strings.TrimSpace(rest), " ", 2)
			if len(f) != 2 {
				return nil, fmt.Errorf("%s:%d: callsite <callee> [label:] expr", path, it.line)
			}
			c, err := parseClause("assert", f[1], it.line)
			if err != nil {
				return nil, err
			}
			cur.CallSites = append(cur.CallSites, &CallSite{Callee: f[0], C: c})
		case "atreturn":
			if cur == nil {
				return nil, fmt.Errorf("%s:%d: atreturn outside func", path, it.line)
			}
			c, err := parseClause("assert", rest, it.line)
			if err != nil {
				return nil, err
			}
			cur.AtReturns = append(cur.AtReturns, c)
			cf.NClauses++
		case "uses":
			if cur == nil {
				return nil, fmt.Errorf("%s:%d: uses outside func", path, it.line)
			}
			cur.Uses = append(cur.Uses, strings.Fields(rest)...)
			cf.NClauses++
		case "trusted":
			if cur == nil {
				return nil, fmt.Errorf("%s:%d: trusted outside func", path, it.line)
			}
			cur.Trusted = rest
		case "modifies":
			if cur == nil {
				return nil, fmt.Errorf("%s:%d: clause outside func", path, it.line)
			}
			for _, m := range strings.Split(rest, ",") {
				cur.Modifies = append(cur.Modifies, strings.TrimSpace(m))
			}
			cf.NClauses++
		case "loop":
			if cur == nil {
				return nil, fmt.Errorf("%s:%d: loop outside func", path, it.line)
			}
			f := strings.Fields(rest)
			n, err := strconv.Atoi(f[0])
			if err != nil {
				return nil, fmt.Errorf("%s:%d: loop ordinal: %v", path, it.line, err)
			}
			curLoop = &LoopContract{Ordinal: n}
			for i := 1; i < len(f); i++ {
				switch f[i] {
				case "unroll":
					i++
					curLoop.Unroll, _ = strconv.Atoi(f[i])
				case "hint":
					i++
					curLoop.Hint = strings.Trim(strings.Join(f[i:], " "), `"`)
					i = len(f)
				}
			}
			cur.Loops = append(cur.Loops, curLoop)
		case "mustcall":
			if curLoop == nil && cur == nil {
				return nil, fmt.Errorf("%s:%d: mustcall outside func", path, it.line)
			}
			f := strings.SplitN(strings.TrimSpace(rest), " ", 2)
			wi := -1
			if len(f) == 2 {
				wi = strings.LastIndex(f[1], " when ")
			}
			if wi < 0 {
				return nil, fmt.Errorf("%s:%d: mustcall <callee> [label:] <argcond> when <cond>", path, it.line)
			}
			ac, err := parseClause("assert", f[1][:wi], it.line)
			if err != nil {
				return nil, err
			}
			wc, err := parseClause("assert", f[1][wi+6:], it.line)
			if err != nil {
				return nil, err
			}
			mcl := &MustCall{Callee: f[0], Label: ac.Label, ArgCond: ac.E, When: wc.E, Text: strings.TrimSpace(f[1]), Line: it.line}
			if curLoop != nil {
				curLoop.MustCalls = append(curLoop.MustCalls, mcl)
			} else {
				cur.MustCalls = append(cur.MustCalls, mcl)
			}
			cf.NClauses++
		case "invariant", "decreases", "step":
			if curLoop == nil {
				return nil, fmt.Errorf("%s:%d: %s outside loop", path, it.line, kw)
			}
			c, err := parseClause(kw, rest, it.line)
			if err != nil {
				return nil, err
			}
			if kw == "invariant" {
				curLoop.Invariants = append(curLoop.Invariants, c)
			} else if kw == "step" {
				curLoop.Steps = append(curLoop.Steps, c)
			} else {
				curLoop.Decreases = c
			}
		case "spec", "pred":
			// spec func name(a T, b T) T = expr
			sf, err := parseSpecFunc(kw, rest, it.line)
			if err != nil {
				return nil, fmt.Errorf("%s:%d: %v", path, it.line, err)
			}
			sf.Pkg = pkg
			cf.Specs[sf.Name] = sf
			cf.SpecOrder = append(cf.SpecOrder, sf.Name)
			cur, curLoop, curLemma = nil, nil, nil
		case "lemma", "axiom":
			// lemma name [arith bv] [uses a,b]: expr
			i := strings.Index(rest, ":")
			structured := false
			if i < 0 {
				structured = true
				i = len(rest)
				rest += ":"
			}
			head := strings.Fields(rest[:i])
			l := &Lemma{Name: head[0], Arith: "int", Text: strings.TrimSpace(rest[i+1:]), Axiom: kw == "axiom", Line: it.line, Pkg: pkg, Opts: map[string]string{}}
			for j := 1; j < len(head); j++ {
				switch head[j] {
				case "arith":
					j++
					l.Arith = head[j]
				case "uses":
					j++
					l.Uses = strings.Split(head[j], ",")
				default:
					if strings.Contains(head[j], "=") {
						kv := strings.SplitN(head[j], "=", 2)
						l.Opts[kv[0]] = kv[1]
					}
				}
			}
			if !structured {
				e, err := ParseExpr(l.Text)
				if err != nil {
					return nil, fmt.Errorf("%s:%d: %v", path, it.line, err)
				}
				l.E = e
			}
			curLemma = l
			cf.Lemmas[l.Name] = l
			cf.LemmaOrder = append(cf.LemmaOrder, l.Name)
			cf.NClauses++
			cur, curLoop = nil, nil
		case "vars":
			if curLemma == nil {
				return nil, fmt.Errorf("%s:%d: vars outside lemma", path, it.line)
			}
			for _, p := range strings.Split(rest, ",") {
				f := strings.Fields(strings.TrimSpace(p))
				if len(f) != 2 {
					return nil, fmt.Errorf("%s:%d: vars: want 'name type'", path, it.line)
				}
				te, err := parseTypeString(f[1])
				if err != nil {
					return nil, fmt.Errorf("%s:%d: %v", path, it.line, err)
				}
				curLemma.Vars = append(curLemma.Vars, QVar{Name: f[0], T: te})
			}
		case "let":
			if curLemma == nil {
				return nil, fmt.Errorf("%s:%d: let outside lemma", path, it.line)
			}
			k := strings.Index(rest, ":=")
			if k < 0 {
				return nil, fmt.Errorf("%s:%d: let needs :=", path, it.line)
			}
			e, err := ParseExpr(strings.TrimSpace(rest[k+2:]))
			if err != nil {
				return nil, fmt.Errorf("%s:%d: %v", path, it.line, err)
			}
			curLemma.Steps = append(curLemma.Steps, &LemmaStep{Kind: "let", Results: []string{strings.TrimSpace(rest[:k])}, E: e, Text: rest, Line: it.line})
		case "use":
			if curLemma == nil {
				return nil, fmt.Errorf("%s:%d: use outside lemma", path, it.line)
			}
			curLemma.Steps = append(curLemma.Steps, &LemmaStep{Kind: "use", Callee: strings.TrimSpace(rest), Text: rest, Line: it.line})
		case "assume", "conclude":
			if curLemma == nil {
				return nil, fmt.Errorf("%s:%d: %s outside lemma", path, it.line, kw)
			}
			c, err := parseClause(kw, rest, it.line)
			if err != nil {
				return nil, err
			}
			curLemma.Steps = append(curLemma.Steps, &LemmaStep{Kind: kw, Label: c.Label, Text: c.Text, E: c.E, Line: it.line})
		case "call", "exec":
			if curLemma == nil {
				return nil, fmt.Errorf("%s:%d: call outside lemma", path, it.line)
			}
			// call r1, r2 := F(args)
			st := &LemmaStep{Kind: kw, Text: rest, Line: it.line}
			rhs := rest
			if k := strings.Index(rest, ":="); k >= 0 {
				for _, r := range strings.Split(rest[:k], ",") {
					st.Results = append(st.Results, strings.TrimSpace(r))
				}
				rhs = strings.TrimSpace(rest[k+2:])
			}
			e, err := ParseExpr(rhs)
			if err != nil {
				return nil, fmt.Errorf("%s:%d: %v", path, it.line, err)
			}
			ce, ok := e.(*ECall)
			if !ok {
				return nil, fmt.Errorf("%s:%d: call needs a function application", path, it.line)
			}
			st.Callee = strings.ReplaceAll(ce.Fun.String(), " ", "")
			st.Args = ce.Args
			curLemma.Steps = append(curLemma.Steps, st)
			cf.NClauses++
		}
	}
	return cf, nil
}

func parseSpecFunc(kw, rest string, line int) (*SpecFunc, error) {
	rest = strings.TrimSpace(rest)
	macro := false
	if strings.HasPrefix(rest, "macro ") {
		macro = true
		rest = strings.TrimSpace(strings.TrimPrefix(rest, "macro"))
	}
	rest = strings.TrimSpace(strings.TrimPrefix(rest, "func"))
	sf := &SpecFunc{Line: line, Text: rest, Macro: macro}
	lp := strings.Index(rest, "(")
	if lp < 0 {
		return nil, fmt.Errorf("spec func: missing (")
	}
	sf.Name = strings.TrimSpace(rest[:lp])
	depth := 0
	rp := -1
	for i := lp; i < len(rest); i++ {
		if rest[i] == '(' {
			depth++
		} else if rest[i] == ')' {
			depth--
			if depth == 0 {
				rp = i
				break
			}
		}
	}
	if rp < 0 {
		return nil, fmt.Errorf("spec func: missing )")
	}
	params := strings.TrimSpace(rest[lp+1 : rp])
	if params != "" {
		for _, p := range splitTopLevel(params) {
			p = strings.TrimSpace(p)
			sp := strings.IndexAny(p, " \t")
			if sp < 0 {
				return nil, fmt.Errorf("spec func param %q: want 'name type'", p)
			}
			f := []string{p[:sp], strings.TrimSpace(p[sp+1:])}
			te, err := parseTypeString(f[1])
			if err != nil {
				return nil, err
			}
			sf.Params = append(sf.Params, QVar{Name: f[0], T: te})
		}
	}
	tail := strings.TrimSpace(rest[rp+1:])
	body := ""
	if i := strings.Index(tail, "="); i >= 0 && !strings.HasPrefix(tail[i:], "==") {
		body = strings.TrimSpace(tail[i+1:])
		tail = strings.TrimSpace(tail[:i])
	}
	if kw == "pred" && tail == "" {
		tail = "bool"
	}
	te, err := parseTypeString(tail)
	if err != nil {
		return nil, fmt.Errorf("spec func result type %q: %v", tail, err)
	}
	sf.Result = te
	if body != "" {
		if i := strings.Index(body, " decreases "); i >= 0 {
			d, err := ParseExpr(body[i+len(" decreases "):])
			if err != nil {
				return nil, err
			}
			sf.Decreases = d
			body = body[:i]
		}
		e, err := ParseExpr(body)
		if err != nil {
			return nil, err
		}
		sf.Body = e
	}
	return sf, nil
}

func parseTypeString(s string) (*TypeExpr, error) {
	toks, err := lex(s)
	if err != nil {
		return nil, err
	}
	p := &parser{toks: toks, src: s}
	var te *TypeExpr
	func() {
		defer func() {
			if r := recover(); r != nil {
				err = fmt.Errorf("%v", r)
			}
		}()
		te = p.typeExpr()
	}()
	return te, err
}

// splitTopLevel splits on commas that are not nested in parentheses.
func splitTopLevel(s string) []string {
	var out []string
	depth, start := 0, 0
	for i, c := range s {
		switch c {
		case '(':
			depth++
		case ')':
			depth--
		case ',':
			if depth == 0 {
				out = append(out, s[start:i])
				start = i + 1
			}
		}
	}
	return append(out, s[start:])
}
