#!/bin/bash
# tryseed_fn.sh <seed-dir-name|patchfile> <pkgrel> <func> [pverif binary]: run one function's obligations against a scratch
# worktree of /repo (HEAD plus the uncommitted contract files of the working tree) with a seeded change applied.
s=$1; pkg=$2; fn=$3; bin=${4:-/verif/bin/pverif}
patch=$s; [ -f "$patch" ] || patch=/verif/seeded/$s/patch.diff
wt=$(mktemp -d /tmp/tryfn.XXXXXX); rmdir $wt
git -C /repo worktree add --detach $wt HEAD >/dev/null 2>&1 || exit 2
(cd /repo && for f in $(git ls-files -m -o --exclude-standard | grep zz_verif_contracts.go); do cp $f $wt/$f; done)
if ! git -C $wt apply $patch; then echo "PATCH DOES NOT APPLY"; git -C /repo worktree remove --force $wt; exit 3; fi
PVERIF_REPO=$wt GOFLAGS=-mod=mod GOPROXY=off GOSUMDB=off GOTOOLCHAIN=local $bin fn $pkg $fn 2>&1 | grep -a 'FAIL\|ERROR\|obligations,'
git -C /repo worktree remove --force $wt >/dev/null 2>&1; rm -rf $wt
