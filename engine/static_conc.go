package main

// Static obligation kinds for ownership / permission conditions on shared state:
//
//   guarded-by   every access to the guarded locations happens while the guarding mutex is held
//                (a must-held forward dataflow over the SSA control-flow graph); functions declared
//                "holders" carry the contract `requires holds(mu)` and every one of their call sites
//                (static or through an interface) is checked for it
//   spawn        the goroutines started by a function have disjoint write footprints, the parent touches
//                what they write only before the spawn or after the WaitGroup barrier, every goroutine
//                signals the barrier, and the barrier count matches the number of goroutines
//   once-init    fields computed under a sync.Once are written only inside the function passed to Do and
//                read only after a call of the function that runs the Once
//
// They are the "frame or ownership conditions" part of the contracts: discharged structurally, for all
// schedules, from the code of the current tree.

import (
	"fmt"
	"go/constant"
	"go/token"
	"go/types"
	"sort"
	"strings"

	"golang.org/x/tools/go/ssa"
	"golang.org/x/tools/go/ssa/ssautil"
)

// pkgFunctions: every function, method and closure whose code belongs to the package.
func pkgFunctions(prog *Prog, pkgPath string) []*ssa.Function {
	var out []*ssa.Function
	for fn := range ssautil.AllFunctions(prog.SSA) {
		if fn.Blocks == nil {
			continue
		}
		root := fn
		for root.Parent() != nil {
			root = root.Parent()
		}
		if root.Pkg == nil || root.Pkg.Pkg.Path() != pkgPath {
			continue
		}
		if root.Synthetic != "" && root.Name() != "init" {
			continue
		}
		out = append(out, fn)
	}
	sort.Slice(out, func(i, j int) bool { return out[i].String() < out[j].String() })
	return out
}

func posOf(prog *Prog, p token.Pos) string {
	ps := prog.Fset.Position(p)
	return fmt.Sprintf("%s:%d", strings.TrimPrefix(ps.Filename, repoDir+"/"), ps.Line)
}

// locSpec names a global ("global:name") or a struct field ("field:T.f").
type locSpec struct {
	global string
	typ    string
	field  string
}

func parseLoc(s string) locSpec {
	s = strings.TrimSpace(s)
	if strings.HasPrefix(s, "global:") {
		return locSpec{global: strings.TrimPrefix(s, "global:")}
	}
	s = strings.TrimPrefix(s, "field:")
	i := strings.LastIndex(s, ".")
	if i < 0 {
		return locSpec{typ: s}
	}
	return locSpec{typ: s[:i], field: s[i+1:]}
}

func namedOf(t types.Type) string {
	if p, ok := t.Underlying().(*types.Pointer); ok {
		t = p.Elem()
	}
	if p, ok := t.(*types.Pointer); ok {
		t = p.Elem()
	}
	if n, ok := t.(*types.Named); ok {
		return n.Obj().Name()
	}
	return ""
}

// matchLoc: does the address value v denote location l? returns the base object (nil for globals).
func matchLoc(v ssa.Value, l locSpec) (ssa.Value, bool) {
	switch x := v.(type) {
	case *ssa.Global:
		if l.global != "" && x.Name() == l.global {
			return nil, true
		}
	case *ssa.FieldAddr:
		if l.field != "" {
			pt, ok := x.X.Type().Underlying().(*types.Pointer)
			if ok && namedOf(pt.Elem()) == l.typ {
				if st, ok := pt.Elem().Underlying().(*types.Struct); ok && st.Field(x.Field).Name() == l.field {
					return x.X, true
				}
			}
		}
	}
	return nil, false
}

// baseKey identifies the object a field access goes through, up to loads of the same variable.
func baseKey(v ssa.Value) string {
	if v == nil {
		return "global"
	}
	switch x := v.(type) {
	case *ssa.UnOp:
		if x.Op == token.MUL {
			return "*" + baseKey(x.X)
		}
	case *ssa.FieldAddr:
		return baseKey(x.X) + "." + fmt.Sprint(x.Field)
	case *ssa.Parameter:
		return "param:" + x.Name()
	case *ssa.FreeVar:
		return "free:" + x.Name()
	case *ssa.Global:
		return "global:" + x.Name()
	}
	return v.Name()
}

type lockEvent struct {
	lock   bool
	base   string
	reader bool
}

// lockCall: is the instruction a (non-deferred) Lock/Unlock of the mutex location?
func lockCall(in ssa.Instruction, mu locSpec) (lockEvent, bool) {
	c, ok := in.(*ssa.Call)
	if !ok {
		return lockEvent{}, false
	}
	callee := c.Call.StaticCallee()
	if callee == nil || len(c.Call.Args) == 0 {
		return lockEvent{}, false
	}
	var ev lockEvent
	switch callee.String() {
	case "(*sync.Mutex).Lock", "(*sync.RWMutex).Lock":
		ev.lock = true
	case "(*sync.RWMutex).RLock":
		ev.lock, ev.reader = true, true
	case "(*sync.Mutex).Unlock", "(*sync.RWMutex).Unlock", "(*sync.RWMutex).RUnlock":
		ev.lock = false
	default:
		return lockEvent{}, false
	}
	base, ok := matchLoc(c.Call.Args[0], mu)
	if !ok {
		return lockEvent{}, false
	}
	ev.base = baseKey(base)
	return ev, true
}

type accessSite struct {
	fn    *ssa.Function
	in    ssa.Instruction
	what  string
	base  string
	write bool
}

// heldAt runs the must-held dataflow for one function; entryHeld: lock bases held on entry ("*" = the
// receiver/any base, for holder functions). Returns for each instruction the set of held bases.
func heldAt(fn *ssa.Function, mu locSpec, entryHeld bool) map[ssa.Instruction]map[string]bool {
	type set = map[string]bool
	copySet := func(s set) set {
		o := set{}
		for k := range s {
			o[k] = true
		}
		return o
	}
	in := map[*ssa.BasicBlock]set{}
	out := map[*ssa.BasicBlock]set{}
	res := map[ssa.Instruction]map[string]bool{}
	top := set{"\x00top": true} // not yet computed
	for _, b := range fn.Blocks {
		out[b] = top
	}
	entry := set{}
	if entryHeld {
		entry["*"] = true
	}
	for changed := true; changed; {
		changed = false
		for _, b := range fn.Blocks {
			var cur set
			if b == fn.Blocks[0] {
				cur = copySet(entry)
			} else {
				first := true
				for _, p := range b.Preds {
					po := out[p]
					if po["\x00top"] {
						continue
					}
					if first {
						cur = copySet(po)
						first = false
					} else {
						for k := range cur {
							if !po[k] {
								delete(cur, k)
							}
						}
					}
				}
				if first {
					cur = set{}
					if len(b.Preds) > 0 {
						// all predecessors uncomputed: wait
						cur = top
					}
				}
			}
			if cur["\x00top"] {
				continue
			}
			in[b] = cur
			st := copySet(cur)
			for _, instr := range b.Instrs {
				res[instr] = copySet(st)
				if ev, ok := lockCall(instr, mu); ok {
					if ev.lock {
						st[ev.base] = true
						if ev.reader {
							st["r:"+ev.base] = true
						}
					} else {
						delete(st, ev.base)
						delete(st, "r:"+ev.base)
						delete(st, "*")
					}
				}
			}
			old := out[b]
			same := !old["\x00top"] && len(old) == len(st)
			if same {
				for k := range st {
					if !old[k] {
						same = false
					}
				}
			}
			if !same {
				out[b] = st
				changed = true
			}
		}
	}
	return res
}

func splitList(s string) []string {
	var out []string
	for _, f := range strings.Split(s, ",") {
		if f = strings.TrimSpace(f); f != "" {
			out = append(out, f)
		}
	}
	return out
}

func runGuardedBy(prog *Prog, sc StaticCheck) *StaticResult {
	res := &StaticResult{Name: sc.Name, Kind: sc.Kind}
	pkgPath := modPath + "/" + sc.Pkg
	mu := parseLoc(sc.Args["mutex"])
	var data []locSpec
	for _, d := range splitList(sc.Args["data"]) {
		data = append(data, parseLoc(d))
	}
	holders := map[string]bool{}
	for _, h := range splitList(sc.Args["holders"]) {
		holders[h] = true
	}
	// the package initialiser runs before any goroutine of the program exists
	exempt := map[string]bool{"init": true}
	for _, h := range splitList(sc.Args["exempt"]) {
		exempt[h] = true
	}
	fns := pkgFunctions(prog, pkgPath)
	if len(fns) == 0 {
		res.Obligations = 1
		res.Failures = append(res.Failures, "binding: package "+sc.Pkg+" has no functions")
		return res
	}
	fname := func(fn *ssa.Function) string {
		if fn.Parent() != nil {
			return fn.Name()
		}
		return contractName(fn)
	}
	foundHolders := map[string]*ssa.Function{}
	nAccess, nLockSites := 0, 0
	usedExempt := map[string]bool{}
	seenSample := map[string]bool{}
	for _, fn := range fns {
		name := fname(fn)
		if holders[name] {
			foundHolders[name] = fn
		}
		held := heldAt(fn, mu, holders[name])
		for _, b := range fn.Blocks {
			for _, in := range b.Instrs {
				if _, ok := lockCall(in, mu); ok {
					nLockSites++
				}
				// accesses: any instruction with an operand that denotes a guarded location
				var ops []*ssa.Value
				ops = in.Operands(ops)
				seenOp := map[ssa.Value]bool{}
				for _, op := range ops {
					if op == nil || *op == nil || seenOp[*op] {
						continue
					}
					seenOp[*op] = true
					for _, d := range data {
						base, ok := matchLoc(*op, d)
						if !ok {
							continue
						}
						// a FieldAddr instruction itself only forms the address; its uses are the accesses
						write := false
						if st, ok := in.(*ssa.Store); ok && st.Addr == *op {
							write = true
						}
						what := d.global
						if what == "" {
							what = d.typ + "." + d.field
						}
						nAccess++
						res.Obligations++
						bk := baseKey(base)
						h := held[in]
						okHeld := h[bk] || h["*"]
						if okHeld && write && h["r:"+bk] && !h["*"] {
							res.Failures = append(res.Failures, fmt.Sprintf("%s writes %s at %s holding only the read lock", name, what, posOf(prog, in.Pos())))
							continue
						}
						if !okHeld {
							if exempt[name] || (fn.Parent() != nil && exempt[fname(fn.Parent())]) {
								usedExempt[name] = true
								res.Discharged++
								continue
							}
							verb := "reads"
							if write {
								verb = "writes"
							}
							res.Failures = append(res.Failures, fmt.Sprintf("%s %s %s at %s without holding %s", name, verb, what, posOf(prog, in.Pos()), sc.Args["mutex"]))
							continue
						}
						res.Discharged++
						if len(res.Samples) < 3 && !seenSample[posOf(prog, in.Pos())] {
							seenSample[posOf(prog, in.Pos())] = true
							res.Samples = append(res.Samples, map[string]interface{}{"obligation": fmt.Sprintf("%s#holds(%s) at access to %s (%s)", name, sc.Args["mutex"], what, posOf(prog, in.Pos())), "backend": "must-held lock dataflow"})
						}
					}
				}
			}
		}
	}
	// holder contracts: requires holds(mu) at every call site in the module
	for h := range holders {
		if foundHolders[h] == nil {
			res.Obligations++
			res.Failures = append(res.Failures, "binding: holder function "+h+" not found in "+sc.Pkg)
		}
	}
	var hnames []string
	for h := range foundHolders {
		hnames = append(hnames, h)
	}
	sort.Strings(hnames)
	for _, hn := range hnames {
		hf := foundHolders[hn]
		sites := 0
		for fn := range ssautil.AllFunctions(prog.SSA) {
			if fn.Blocks == nil {
				continue
			}
			root := fn
			for root.Parent() != nil {
				root = root.Parent()
			}
			if root.Pkg == nil || !strings.HasPrefix(root.Pkg.Pkg.Path(), modPath) {
				continue
			}
			var held map[ssa.Instruction]map[string]bool
			for _, b := range fn.Blocks {
				for _, in := range b.Instrs {
					ci, ok := in.(ssa.CallInstruction)
					if !ok {
						continue
					}
					c := ci.Common()
					match := false
					if c.IsInvoke() {
						if c.Method.Name() == hf.Name() && hf.Signature.Recv() != nil {
							if iface, ok := c.Value.Type().Underlying().(*types.Interface); ok && types.Implements(hf.Signature.Recv().Type(), iface) {
								match = true
							}
						}
					} else if c.StaticCallee() == hf {
						match = true
					}
					if !match {
						continue
					}
					sites++
					res.Obligations++
					if held == nil {
						held = heldAt(fn, mu, holders[fname(fn)])
					}
					h := held[in]
					anyHeld := h["*"]
					for k := range h {
						if !strings.HasPrefix(k, "r:") {
							anyHeld = true
						}
					}
					if _, isGo := in.(*ssa.Go); isGo {
						anyHeld = false
					}
					if !anyHeld {
						if exempt[fname(fn)] {
							usedExempt[fname(fn)] = true
							res.Discharged++
							continue
						}
						res.Failures = append(res.Failures, fmt.Sprintf("%s calls %s at %s without holding %s (callee requires holds)", fname(fn), hn, posOf(prog, in.Pos()), sc.Args["mutex"]))
						continue
					}
					res.Discharged++
				}
			}
		}
		if sites == 0 {
			res.Obligations++
			res.Failures = append(res.Failures, "holder "+hn+" has no call site (stale holder declaration)")
		}
	}
	if nAccess == 0 && len(data) > 0 {
		res.Obligations++
		res.Failures = append(res.Failures, "no access to the guarded locations found (vacuous: stale location names?)")
	}
	if nLockSites == 0 {
		res.Obligations++
		res.Failures = append(res.Failures, "no Lock/Unlock of "+sc.Args["mutex"]+" found (vacuous)")
	}
	var ex []string
	for k := range usedExempt {
		ex = append(ex, k)
	}
	sort.Strings(ex)
	if len(ex) > 0 {
		res.Trusted = append(res.Trusted, fmt.Sprintf("guarded-by %s: unlocked accesses in %v are exempt: init runs before any goroutine exists; %s", sc.Args["mutex"], ex, sc.Args["exempt_reason"]))
	}
	res.Trusted = append(res.Trusted, "lock identity is syntactic: the mutex and the data must be reached through the same variable/receiver expression")
	res.Detail = map[string]interface{}{"mutex": sc.Args["mutex"], "data": sc.Args["data"], "accesses": nAccess, "lock_sites": nLockSites, "holders": hnames}
	return res
}

// ---------------------------------------------------------------------------------------------
// spawn

// rootCell: the captured variable / parameter / global an address is rooted in.
func rootCell(v ssa.Value) (root ssa.Value, viaDeref bool) {
	for depth := 0; depth < 32; depth++ {
		switch x := v.(type) {
		case *ssa.FieldAddr:
			v = x.X
		case *ssa.IndexAddr:
			v = x.X
		case *ssa.UnOp:
			if x.Op == token.MUL {
				viaDeref = true
				v = x.X
				continue
			}
			return v, viaDeref
		case *ssa.Slice:
			v = x.X
		default:
			return v, viaDeref
		}
	}
	return v, viaDeref
}

type footprint struct {
	writes map[ssa.Value][]string // root cell (FreeVar / Parameter / Global) -> positions
	reads  map[ssa.Value][]string
}

func footprintOf(prog *Prog, fn *ssa.Function) *footprint {
	fp := &footprint{writes: map[ssa.Value][]string{}, reads: map[ssa.Value][]string{}}
	isSync := func(v ssa.Value) bool {
		t := v.Type()
		if p, ok := t.Underlying().(*types.Pointer); ok {
			t = p.Elem()
		}
		return strings.HasPrefix(types.TypeString(t, nil), "sync.")
	}
	for _, b := range fn.Blocks {
		for _, in := range b.Instrs {
			switch x := in.(type) {
			case *ssa.Store:
				r, _ := rootCell(x.Addr)
				switch r.(type) {
				case *ssa.FreeVar, *ssa.Parameter, *ssa.Global:
					if !isSync(r) {
						fp.writes[r] = append(fp.writes[r], posOf(prog, x.Pos()))
					}
				}
			case *ssa.UnOp:
				if x.Op == token.MUL {
					r, _ := rootCell(x.X)
					switch r.(type) {
					case *ssa.FreeVar, *ssa.Parameter, *ssa.Global:
						if !isSync(r) {
							fp.reads[r] = append(fp.reads[r], posOf(prog, x.Pos()))
						}
					}
				}
			}
		}
	}
	return fp
}

func runSpawn(prog *Prog, sc StaticCheck) *StaticResult {
	res := &StaticResult{Name: sc.Name, Kind: sc.Kind}
	fn := prog.FindFunc(modPath+"/"+sc.Pkg, sc.Args["func"])
	if fn == nil {
		res.Obligations = 1
		res.Failures = append(res.Failures, "binding: function "+sc.Args["func"]+" not found")
		return res
	}
	fail := func(f string, a ...interface{}) {
		res.Obligations++
		res.Failures = append(res.Failures, fmt.Sprintf(f, a...))
	}
	pass := func(name string) {
		res.Obligations++
		res.Discharged++
		if len(res.Samples) < 4 {
			res.Samples = append(res.Samples, map[string]interface{}{"obligation": sc.Args["func"] + "#" + name, "backend": "static ownership analysis"})
		}
	}
	type spawn struct {
		in      *ssa.Go
		clo     *ssa.Function
		binds   map[*ssa.FreeVar]ssa.Value // captured variable -> cell in the parent
		inLoop  bool
		fp      *footprint
		argElem ssa.Value // slice whose element address is passed (when in a loop)
	}
	var spawns []*spawn
	// loops: blocks that can reach themselves
	reach := func(from *ssa.BasicBlock) map[*ssa.BasicBlock]bool {
		seen := map[*ssa.BasicBlock]bool{}
		var walk func(b *ssa.BasicBlock)
		walk = func(b *ssa.BasicBlock) {
			for _, s := range b.Succs {
				if !seen[s] {
					seen[s] = true
					walk(s)
				}
			}
		}
		walk(from)
		return seen
	}
	var wg ssa.Value
	for _, b := range fn.Blocks {
		for _, in := range b.Instrs {
			g, ok := in.(*ssa.Go)
			if !ok {
				continue
			}
			sp := &spawn{in: g, binds: map[*ssa.FreeVar]ssa.Value{}, inLoop: reach(b)[b]}
			switch v := g.Call.Value.(type) {
			case *ssa.MakeClosure:
				sp.clo = v.Fn.(*ssa.Function)
				for i, bv := range v.Bindings {
					sp.binds[sp.clo.FreeVars[i]] = bv
				}
			case *ssa.Function:
				sp.clo = v
			}
			if sp.clo == nil {
				fail("go statement at %s starts a function value that is not a literal closure", posOf(prog, g.Pos()))
				continue
			}
			sp.fp = footprintOf(prog, sp.clo)
			spawns = append(spawns, sp)
		}
	}
	if len(spawns) == 0 {
		fail("%s starts no goroutine (vacuous / stale)", sc.Args["func"])
		return res
	}
	// the WaitGroup: the cell on which Add is called in the parent
	var addArg ssa.Value
	var waits []*ssa.Call
	for _, b := range fn.Blocks {
		for _, in := range b.Instrs {
			c, ok := in.(*ssa.Call)
			if !ok || c.Call.StaticCallee() == nil {
				continue
			}
			switch c.Call.StaticCallee().String() {
			case "(*sync.WaitGroup).Add":
				if wg != nil && wg != c.Call.Args[0] {
					fail("several WaitGroups in %s", sc.Args["func"])
				}
				wg = c.Call.Args[0]
				addArg = c.Call.Args[1]
			case "(*sync.WaitGroup).Wait":
				waits = append(waits, c)
			}
		}
	}
	if wg == nil || len(waits) == 0 {
		fail("%s has no WaitGroup Add/Wait pair", sc.Args["func"])
		return res
	}
	// (d) every goroutine signals the barrier on all paths: a deferred Done on the captured WaitGroup in its entry block
	for _, sp := range spawns {
		done := false
		for _, in := range sp.clo.Blocks[0].Instrs {
			if d, ok := in.(*ssa.Defer); ok && d.Call.StaticCallee() != nil && d.Call.StaticCallee().String() == "(*sync.WaitGroup).Done" {
				if fv, ok := d.Call.Args[0].(*ssa.FreeVar); ok && sp.binds[fv] == wg {
					done = true
				}
			}
			if _, isCall := in.(*ssa.Call); isCall && !done {
				break // work before the defer: a panic there would skip Done
			}
		}
		if done {
			pass(fmt.Sprintf("goroutine %s defers wg.Done before any other call", sp.clo.Name()))
		} else {
			fail("goroutine %s (started at %s) does not defer wg.Done() first: the barrier may never open or open early", sp.clo.Name(), posOf(prog, sp.in.Pos()))
		}
	}
	// (d') barrier count
	nStraight := 0
	var loopSpawns []*spawn
	for _, sp := range spawns {
		if sp.inLoop {
			loopSpawns = append(loopSpawns, sp)
		} else {
			nStraight++
		}
	}
	switch {
	case len(loopSpawns) == 0:
		if c, ok := addArg.(*ssa.Const); ok && c.Value != nil && constant.Compare(c.Value, token.EQL, constant.MakeInt64(int64(nStraight))) {
			pass(fmt.Sprintf("wg.Add(%d) matches %d go statements", nStraight, nStraight))
		} else {
			fail("wg.Add argument %s does not match the %d go statements", addArg, nStraight)
		}
	case len(loopSpawns) == 1 && nStraight == 0:
		// one goroutine per iteration of `for i := range X` and Add(len(X))
		sp := loopSpawns[0]
		okCount := false
		var ranged ssa.Value
		if call, ok := addArg.(*ssa.Call); ok {
			if b, ok := call.Call.Value.(*ssa.Builtin); ok && b.Name() == "len" {
				ranged = call.Call.Args[0]
			}
		}
		// the go statement's block is the body of a range-index loop over `ranged`: header compares index+1 < len(ranged)
		blk := sp.in.Block()
		if ranged != nil && len(blk.Preds) == 1 {
			hdr := blk.Preds[0]
			if ifi, ok := hdr.Instrs[len(hdr.Instrs)-1].(*ssa.If); ok && hdr.Succs[0] == blk {
				if cmp, ok := ifi.Cond.(*ssa.BinOp); ok && cmp.Op == token.LSS {
					if lc, ok := cmp.Y.(*ssa.Call); ok {
						if b, ok := lc.Call.Value.(*ssa.Builtin); ok && b.Name() == "len" && lc.Call.Args[0] == ranged {
							if inc, ok := cmp.X.(*ssa.BinOp); ok && inc.Op == token.ADD {
								if phi, ok := inc.X.(*ssa.Phi); ok && phi.Comment == "rangeindex" {
									// exactly one go per iteration: the body block is straight-line back to the header
									if len(blk.Succs) == 1 && blk.Succs[0] == hdr {
										okCount = true
										// the element handed to the goroutine is &ranged[index]
										if len(sp.in.Call.Args) == 1 {
											if ia, ok := sp.in.Call.Args[0].(*ssa.IndexAddr); ok && ia.X == ranged && ia.Index == inc {
												sp.argElem = ranged
											}
										}
									}
								}
							}
						}
					}
				}
			}
		}
		if okCount {
			pass("wg.Add(len(X)) matches one go statement per iteration of the range over X")
		} else {
			fail("cannot match wg.Add(%s) with the goroutines started in the loop at %s", addArg, posOf(prog, sp.in.Pos()))
		}
	default:
		fail("mix of looped and straight-line go statements: barrier count not analysable")
	}
	// (a)/(b) footprints over captured cells
	cellOf := func(sp *spawn, r ssa.Value) ssa.Value {
		if fv, ok := r.(*ssa.FreeVar); ok {
			return sp.binds[fv]
		}
		return r
	}
	type cellUse struct {
		sp    *spawn
		write bool
		pos   []string
	}
	uses := map[ssa.Value][]cellUse{}
	for _, sp := range spawns {
		for r, pos := range sp.fp.writes {
			switch r.(type) {
			case *ssa.Parameter:
				// write through a pointer parameter: must be the iteration's own element
				if sp.inLoop && sp.argElem == nil {
					fail("goroutine %s writes through parameter %s at %v but the argument is not the loop's own element &X[i]", sp.clo.Name(), r.Name(), pos)
				} else if sp.inLoop {
					pass(fmt.Sprintf("goroutine %s writes only its own element &X[i] through %s", sp.clo.Name(), r.Name()))
				} else {
					fail("goroutine %s writes through parameter %s at %v (aliasing not analysable)", sp.clo.Name(), r.Name(), pos)
				}
				continue
			case *ssa.Global:
				fail("goroutine %s writes global %s at %v", sp.clo.Name(), r.Name(), pos)
				continue
			}
			c := cellOf(sp, r)
			if sp.inLoop {
				fail("goroutines %s started in a loop all write the captured variable %s at %v", sp.clo.Name(), r.Name(), pos)
				continue
			}
			uses[c] = append(uses[c], cellUse{sp, true, pos})
		}
		for r, pos := range sp.fp.reads {
			if _, ok := r.(*ssa.FreeVar); !ok {
				continue
			}
			uses[cellOf(sp, r)] = append(uses[cellOf(sp, r)], cellUse{sp, false, pos})
		}
	}
	written := map[ssa.Value]bool{}
	readBy := map[ssa.Value]bool{}
	for c, us := range uses {
		for _, u := range us {
			if u.write {
				written[c] = true
			} else {
				readBy[c] = true
			}
		}
		for i, u := range us {
			if !u.write {
				continue
			}
			conflict := false
			for j, v := range us {
				if i != j && v.sp != u.sp {
					conflict = true
					fail("captured variable %s is written by goroutine %s at %v and accessed by goroutine %s at %v", c.Name(), u.sp.clo.Name(), u.pos, v.sp.clo.Name(), v.pos)
				}
			}
			if !conflict {
				pass(fmt.Sprintf("captured variable %s (%s) is written by goroutine %s only", c.Name(), commentOf(c), u.sp.clo.Name()))
			}
		}
	}
	// effects below the goroutine bodies: no stores to globals in anything they call
	for _, sp := range spawns {
		ms := prog.ModSetOf(sp.clo)
		var globals []string
		for k, sites := range ms.sites {
			if strings.HasPrefix(k, "global:") {
				allowed := false
				for _, a := range splitList(sc.Args["allow_globals"]) {
					if "global:"+a == k {
						allowed = true
					}
				}
				if !allowed {
					globals = append(globals, fmt.Sprintf("%s at %v", k, sites))
				}
			}
		}
		sort.Strings(globals)
		if len(globals) > 0 {
			fail("goroutine %s (transitively) writes package variables without this check knowing a lock: %s", sp.clo.Name(), strings.Join(globals, "; "))
		} else {
			pass(fmt.Sprintf("goroutine %s and its callees write no package variable%s", sp.clo.Name(), map[bool]string{true: " other than " + sc.Args["allow_globals"], false: ""}[sc.Args["allow_globals"] != ""]))
		}
		if ms.all {
			var u []string
			for k := range ms.unknown {
				u = append(u, k)
			}
			sort.Strings(u)
			res.Trusted = append(res.Trusted, fmt.Sprintf("spawn %s: calls with unknown effects below goroutine %s assumed not to touch the other goroutines' data: %s", sc.Args["func"], sp.clo.Name(), strings.Join(u, "; ")))
		}
	}
	// (c) the parent touches goroutine-written data only before the first spawn or after the barrier:
	// walk forward from every go statement, stopping at Wait; no visited instruction may access a written cell,
	// store to a cell the goroutines read, or touch the elements of the slice handed out
	visitedBlocks := map[*ssa.BasicBlock]int{} // block -> smallest start index visited
	var conflicts []string
	var walk func(b *ssa.BasicBlock, from int)
	isWait := func(in ssa.Instruction) bool {
		c, ok := in.(*ssa.Call)
		return ok && c.Call.StaticCallee() != nil && c.Call.StaticCallee().String() == "(*sync.WaitGroup).Wait" && c.Call.Args[0] == wg
	}
	walk = func(b *ssa.BasicBlock, from int) {
		if prev, ok := visitedBlocks[b]; ok && prev <= from {
			return
		}
		visitedBlocks[b] = from
		for i := from; i < len(b.Instrs); i++ {
			in := b.Instrs[i]
			if isWait(in) {
				return
			}
			switch x := in.(type) {
			case *ssa.Store:
				r, _ := rootCell(x.Addr)
				if written[r] || readBy[r] {
					conflicts = append(conflicts, fmt.Sprintf("parent stores to %s at %s while goroutines may run", r.Name(), posOf(prog, x.Pos())))
				}
				for _, sp := range spawns {
					if sp.argElem != nil && r == sp.argElem {
						conflicts = append(conflicts, fmt.Sprintf("parent stores to an element of the slice handed to the goroutines at %s before the barrier", posOf(prog, x.Pos())))
					}
				}
			case *ssa.UnOp:
				if x.Op == token.MUL {
					r, _ := rootCell(x.X)
					if written[r] {
						conflicts = append(conflicts, fmt.Sprintf("parent reads %s at %s before the barrier", r.Name(), posOf(prog, x.Pos())))
					}
					for _, sp := range spawns {
						if sp.argElem != nil && r == sp.argElem {
							if _, isIdx := x.X.(*ssa.Parameter); !isIdx {
								conflicts = append(conflicts, fmt.Sprintf("parent reads an element of the slice handed to the goroutines at %s before the barrier", posOf(prog, x.Pos())))
							}
						}
					}
				}
			}
		}
		for _, s := range b.Succs {
			walk(s, 0)
		}
	}
	for _, sp := range spawns {
		b := sp.in.Block()
		for i, in := range b.Instrs {
			if in == sp.in {
				walk(b, i+1)
			}
		}
	}
	if len(conflicts) > 0 {
		sort.Strings(conflicts)
		for _, c := range conflicts {
			fail("%s", c)
		}
	} else {
		pass("between the first go statement and wg.Wait the parent touches nothing the goroutines write")
	}
	// every path from a go statement to a return passes the barrier
	escaped := false
	for b := range visitedBlocks {
		if len(b.Instrs) == 0 {
			continue
		}
		if _, isRet := b.Instrs[len(b.Instrs)-1].(*ssa.Return); isRet {
			// reached a return without meeting Wait in this block after the visited start
			hasWait := false
			for i := visitedBlocks[b]; i < len(b.Instrs); i++ {
				if isWait(b.Instrs[i]) {
					hasWait = true
				}
			}
			if !hasWait {
				escaped = true
			}
		}
	}
	if escaped {
		fail("a path from a go statement reaches a return without wg.Wait()")
	} else {
		pass("every path from a go statement to a return passes wg.Wait")
	}
	res.Detail = map[string]interface{}{"func": sc.Args["func"], "goroutines": len(spawns)}
	res.Trusted = append(res.Trusted, "sync.WaitGroup: Wait returns only after every Add has been matched by a Done, and establishes happens-before from each Done")
	return res
}

func commentOf(v ssa.Value) string {
	if a, ok := v.(*ssa.Alloc); ok {
		return a.Comment
	}
	return v.Name()
}

// ---------------------------------------------------------------------------------------------
// once-init: fields computed under a sync.Once

func runOnceInit(prog *Prog, sc StaticCheck) *StaticResult {
	res := &StaticResult{Name: sc.Name, Kind: sc.Kind}
	pkgPath := modPath + "/" + sc.Pkg
	once := parseLoc(sc.Args["once"])
	var data []locSpec
	for _, d := range splitList(sc.Args["data"]) {
		data = append(data, parseLoc(d))
	}
	fns := pkgFunctions(prog, pkgPath)
	exempt := map[string]bool{}
	for _, e := range splitList(sc.Args["exempt"]) {
		exempt[e] = true
	}
	writers := map[string]bool{} // functions that run only inside the once function
	for _, w := range splitList(sc.Args["writers"]) {
		writers[w] = true
	}
	fname := func(fn *ssa.Function) string {
		if fn.Parent() != nil {
			return fn.Name()
		}
		return contractName(fn)
	}
	isDo := func(in ssa.Instruction) (*ssa.Call, bool) {
		c, ok := in.(*ssa.Call)
		if !ok || c.Call.StaticCallee() == nil || c.Call.StaticCallee().String() != "(*sync.Once).Do" {
			return nil, false
		}
		if _, ok := matchLoc(c.Call.Args[0], once); !ok {
			return nil, false
		}
		return c, true
	}
	// functions run by Do
	onceFns := map[*ssa.Function]bool{}
	nDo := 0
	for _, fn := range fns {
		for _, b := range fn.Blocks {
			for _, in := range b.Instrs {
				c, ok := isDo(in)
				if !ok {
					continue
				}
				nDo++
				res.Obligations++
				var f *ssa.Function
				switch v := c.Call.Args[1].(type) {
				case *ssa.MakeClosure:
					f = v.Fn.(*ssa.Function)
				case *ssa.Function:
					f = v
				}
				if f == nil {
					res.Failures = append(res.Failures, fmt.Sprintf("%s passes a non-literal function to %s.Do at %s", fname(fn), sc.Args["once"], posOf(prog, in.Pos())))
					continue
				}
				onceFns[f] = true
				// bound-method wrappers: the method they call runs under the once too
				if f.Synthetic != "" {
					for _, fb := range f.Blocks {
						for _, fi := range fb.Instrs {
							if fc, ok := fi.(*ssa.Call); ok && fc.Call.StaticCallee() != nil {
								onceFns[fc.Call.StaticCallee()] = true
							}
						}
					}
				}
				res.Discharged++
			}
		}
	}
	if nDo == 0 {
		res.Obligations++
		res.Failures = append(res.Failures, "no call of "+sc.Args["once"]+".Do found (vacuous)")
		return res
	}
	underOnce := func(fn *ssa.Function) bool {
		for f := fn; f != nil; f = f.Parent() {
			if onceFns[f] || writers[fname(f)] {
				return true
			}
		}
		return false
	}
	// writers are called only from code that runs under the once
	for w := range writers {
		sites := 0
		for _, fn := range fns {
			for _, b := range fn.Blocks {
				for _, in := range b.Instrs {
					ci, ok := in.(ssa.CallInstruction)
					if !ok || ci.Common().StaticCallee() == nil || fname(ci.Common().StaticCallee()) != w {
						continue
					}
					sites++
					res.Obligations++
					if underOnce(fn) {
						res.Discharged++
					} else {
						res.Failures = append(res.Failures, fmt.Sprintf("%s calls %s at %s outside the function run by %s.Do", fname(fn), w, posOf(prog, in.Pos()), sc.Args["once"]))
					}
				}
			}
		}
		if sites == 0 {
			res.Obligations++
			res.Failures = append(res.Failures, "writer "+w+" has no call site (stale)")
		}
	}
	nAcc := 0
	seenT := map[string]bool{}
	for _, fn := range fns {
		doBlocks := map[*ssa.BasicBlock]bool{}
		doCalls := map[ssa.Instruction]bool{}
		for _, b := range fn.Blocks {
			for _, in := range b.Instrs {
				if _, ok := isDo(in); ok {
					doCalls[in] = true
					doBlocks[b] = true
				}
			}
		}
		afterDo := func(in ssa.Instruction) bool {
			b := in.Block()
			for _, x := range b.Instrs {
				if x == in {
					break
				}
				if doCalls[x] {
					return true
				}
			}
			for d := b.Idom(); d != nil; d = d.Idom() {
				if doBlocks[d] {
					return true
				}
			}
			return false
		}
		for _, b := range fn.Blocks {
			for _, in := range b.Instrs {
				var ops []*ssa.Value
				ops = in.Operands(ops)
				seen := map[ssa.Value]bool{}
				for _, op := range ops {
					if op == nil || *op == nil || seen[*op] {
						continue
					}
					seen[*op] = true
					for _, d := range data {
						if _, ok := matchLoc(*op, d); !ok {
							continue
						}
						nAcc++
						res.Obligations++
						st, isStore := in.(*ssa.Store)
						write := isStore && st.Addr == *op
						what := d.typ + "." + d.field
						switch {
						case underOnce(fn):
							res.Discharged++
						case write && freshRoot(st.Addr, nil):
							// constructor: the object is not yet visible to any other goroutine
							res.Discharged++
						case !write && afterDo(in):
							res.Discharged++
							if len(res.Samples) < 2 {
								res.Samples = append(res.Samples, map[string]interface{}{"obligation": fmt.Sprintf("%s#read of %s after %s.Do (%s)", fname(fn), what, sc.Args["once"], posOf(prog, in.Pos())), "backend": "dominance"})
							}
						case exempt[fname(fn)]:
							res.Discharged++
							if t := fmt.Sprintf("once-init %s: accesses in %s exempt: %s", sc.Args["once"], fname(fn), sc.Args["exempt_reason"]); !seenT[t] {
								seenT[t] = true
								res.Trusted = append(res.Trusted, t)
							}
						case write:
							res.Failures = append(res.Failures, fmt.Sprintf("%s writes %s at %s outside the function run by %s.Do", fname(fn), what, posOf(prog, in.Pos()), sc.Args["once"]))
						default:
							res.Failures = append(res.Failures, fmt.Sprintf("%s reads %s at %s without a dominating %s.Do", fname(fn), what, posOf(prog, in.Pos()), sc.Args["once"]))
						}
					}
				}
			}
		}
	}
	if nAcc == 0 {
		res.Obligations++
		res.Failures = append(res.Failures, "no access to the once-initialised fields found (vacuous)")
	}
	res.Trusted = append(res.Trusted, "sync.Once: Do runs the function once and every return from Do happens after that run completed")
	res.Detail = map[string]interface{}{"once": sc.Args["once"], "data": sc.Args["data"], "accesses": nAcc, "do_sites": nDo}
	sort.Strings(res.Trusted)
	return res
}

// ---------------------------------------------------------------------------------------------
// critical-section: the function takes the mutex before doing anything else, releases it only by a deferred
// Unlock, and never unlocks explicitly: everything it does forms one critical section.
func runCriticalSection(prog *Prog, sc StaticCheck) *StaticResult {
	res := &StaticResult{Name: sc.Name, Kind: sc.Kind}
	fn := prog.FindFunc(modPath+"/"+sc.Pkg, sc.Args["func"])
	if fn == nil {
		res.Obligations = 1
		res.Failures = append(res.Failures, "binding: function "+sc.Args["func"]+" not found")
		return res
	}
	mu := parseLoc(sc.Args["mutex"])
	res.Obligations = 3
	// (1) the first call of the entry block is Lock(mu)
	first := false
	for _, in := range fn.Blocks[0].Instrs {
		if ev, ok := lockCall(in, mu); ok && ev.lock && !ev.reader {
			first = true
			break
		}
		if _, isCall := in.(ssa.CallInstruction); isCall {
			break
		}
	}
	if first {
		res.Discharged++
	} else {
		res.Failures = append(res.Failures, fmt.Sprintf("%s does not lock %s before its first call", sc.Args["func"], sc.Args["mutex"]))
	}
	// (2) a deferred Unlock in the entry block, (3) no explicit Unlock anywhere
	deferred, explicit := false, ""
	for _, b := range fn.Blocks {
		for _, in := range b.Instrs {
			if d, ok := in.(*ssa.Defer); ok && b == fn.Blocks[0] {
				if c := d.Call.StaticCallee(); c != nil && strings.HasSuffix(c.String(), "Mutex).Unlock") && len(d.Call.Args) > 0 {
					if _, ok := matchLoc(d.Call.Args[0], mu); ok {
						deferred = true
					}
				}
			}
			if ev, ok := lockCall(in, mu); ok && !ev.lock {
				explicit = posOf(prog, in.Pos())
			}
		}
	}
	if deferred {
		res.Discharged++
	} else {
		res.Failures = append(res.Failures, fmt.Sprintf("%s does not defer %s.Unlock() at its start", sc.Args["func"], sc.Args["mutex"]))
	}
	if explicit == "" {
		res.Discharged++
	} else {
		res.Failures = append(res.Failures, fmt.Sprintf("%s unlocks %s explicitly at %s: its read-modify-write is not one critical section", sc.Args["func"], sc.Args["mutex"], explicit))
	}
	// (4) the calls that must be inside the section are there
	for _, want := range splitList(sc.Args["contains"]) {
		res.Obligations++
		found := false
		for _, b := range fn.Blocks {
			for _, in := range b.Instrs {
				if ci, ok := in.(ssa.CallInstruction); ok && ci.Common().StaticCallee() != nil && contractName(ci.Common().StaticCallee()) == want {
					found = true
				}
			}
		}
		if found {
			res.Discharged++
		} else {
			res.Failures = append(res.Failures, fmt.Sprintf("%s no longer calls %s (stale obligation)", sc.Args["func"], want))
		}
	}
	res.Samples = append(res.Samples, map[string]interface{}{"obligation": fmt.Sprintf("%s#critical-section(%s) around %s", sc.Args["func"], sc.Args["mutex"], sc.Args["contains"]), "backend": "structural"})
	return res
}

// atomic-write: the function replaces the file named by its parameter <dest> atomically: it never opens or
// writes the destination directly (no os.WriteFile / os.Create / os.OpenFile), writes a file obtained from
// os.CreateTemp, closes it, and only then renames it onto <dest>; Rename is the only call that receives <dest>
// as a destination, and it is dominated by the Write and the Close.
func runAtomicWrite(prog *Prog, sc StaticCheck) *StaticResult {
	res := &StaticResult{Name: sc.Name, Kind: sc.Kind}
	fn := prog.FindFunc(modPath+"/"+sc.Pkg, sc.Args["func"])
	if fn == nil {
		res.Obligations = 1
		res.Failures = append(res.Failures, "binding: function "+sc.Args["func"]+" not found")
		return res
	}
	var dest *ssa.Parameter
	for _, p := range fn.Params {
		if p.Name() == sc.Args["dest"] {
			dest = p
		}
	}
	if dest == nil {
		res.Obligations = 1
		res.Failures = append(res.Failures, "binding: parameter "+sc.Args["dest"]+" not found")
		return res
	}
	var createTemp, write, closeC, rename *ssa.Call
	var direct, removes []string
	for _, b := range fn.Blocks {
		for _, in := range b.Instrs {
			c, ok := in.(*ssa.Call)
			if !ok || c.Call.StaticCallee() == nil {
				continue
			}
			switch c.Call.StaticCallee().String() {
			case "os.WriteFile", "os.Create", "os.OpenFile", "io/ioutil.WriteFile":
				direct = append(direct, fmt.Sprintf("%s at %s", c.Call.StaticCallee().String(), posOf(prog, c.Pos())))
			case "os.Remove", "os.RemoveAll":
				// only the temporary file may be removed: the argument is (*os.File).Name() of some file value
				okArg := false
				if len(c.Call.Args) == 1 {
					if nc, ok := c.Call.Args[0].(*ssa.Call); ok && nc.Call.StaticCallee() != nil && nc.Call.StaticCallee().String() == "(*os.File).Name" {
						okArg = true
					}
				}
				if !okArg {
					removes = append(removes, fmt.Sprintf("%s at %s", c.Call.StaticCallee().String(), posOf(prog, c.Pos())))
				}
			case "os.CreateTemp":
				createTemp = c
			case "(*os.File).Write", "(*os.File).WriteString":
				write = c
			case "(*os.File).Close":
				closeC = c
			case "os.Rename":
				if len(c.Call.Args) == 2 && c.Call.Args[1] == dest {
					rename = c
				}
			}
		}
	}
	check := func(ok bool, passName, failMsg string) {
		res.Obligations++
		if ok {
			res.Discharged++
			res.Samples = append(res.Samples, map[string]interface{}{"obligation": sc.Args["func"] + "#" + passName, "backend": "structural/dominance"})
		} else {
			res.Failures = append(res.Failures, failMsg)
		}
	}
	check(len(direct) == 0, "never opens the destination for writing", fmt.Sprintf("%s writes in place: %s", sc.Args["func"], strings.Join(direct, ", ")))
	check(len(removes) == 0, "removes nothing but its own temporary file", fmt.Sprintf("%s removes a file that is not its temporary file (the destination could vanish before the rename): %s", sc.Args["func"], strings.Join(removes, ", ")))
	check(createTemp != nil && write != nil && closeC != nil, "writes a temporary file and closes it", sc.Args["func"]+" does not write and close a file from os.CreateTemp")
	check(rename != nil, "renames the temporary file onto "+sc.Args["dest"], sc.Args["func"]+" does not os.Rename onto "+sc.Args["dest"])
	if rename != nil && write != nil && closeC != nil {
		dominates := func(a, b *ssa.Call) bool {
			if a.Block() == b.Block() {
				for _, in := range a.Block().Instrs {
					if in == a {
						return true
					}
					if in == b {
						return false
					}
				}
			}
			return a.Block().Dominates(b.Block())
		}
		check(dominates(write, rename) && dominates(closeC, rename), "rename happens after the data is written and the file closed", "os.Rename is not dominated by the Write and Close of the temporary file")
		// the rename is reached only when the write reported no error: the condition guarding it tests a value
		// that still carries the write's error on every path
		check(renameGuardedBy(rename, write) && renameGuardedBy(rename, closeC), "rename is reached only if Write and Close returned nil errors", "os.Rename can be reached although Write or Close reported an error (the error is overwritten before it is tested)")
		// the temporary file lives in the destination's directory (rename within one file system)
		sameDir := false
		if createTemp != nil {
			if dc, ok := createTemp.Call.Args[0].(*ssa.Call); ok && dc.Call.StaticCallee() != nil && dc.Call.StaticCallee().String() == "path/filepath.Dir" && dc.Call.Args[0] == dest {
				sameDir = true
			}
		}
		check(sameDir, "temporary file is created in filepath.Dir("+sc.Args["dest"]+")", "temporary file is not created in the destination's directory (rename may cross file systems)")
	}
	res.Trusted = append(res.Trusted, "os.Rename within a directory replaces the destination atomically (POSIX rename); durability against power loss (fsync) is not claimed")
	return res
}

// publishes-fresh (copy-on-write): in <func>, every value stored into field <field> and every argument handed to a
// call through a function-typed parameter is an object allocated by this very execution of <func> (never the
// shared object that other goroutines may be reading).
func runPublishesFresh(prog *Prog, sc StaticCheck) *StaticResult {
	res := &StaticResult{Name: sc.Name, Kind: sc.Kind}
	fn := prog.FindFunc(modPath+"/"+sc.Pkg, sc.Args["func"])
	if fn == nil {
		res.Obligations = 1
		res.Failures = append(res.Failures, "binding: function "+sc.Args["func"]+" not found")
		return res
	}
	field := parseLoc(sc.Args["field"])
	isFresh := func(v ssa.Value) bool {
		a, ok := v.(*ssa.Alloc)
		return ok && a.Parent() == fn
	}
	n := 0
	for _, b := range fn.Blocks {
		for _, in := range b.Instrs {
			switch x := in.(type) {
			case *ssa.Store:
				if _, ok := matchLoc(x.Addr, field); ok {
					n++
					res.Obligations++
					if isFresh(x.Val) {
						res.Discharged++
						res.Samples = append(res.Samples, map[string]interface{}{"obligation": fmt.Sprintf("%s#stores a fresh object into %s (%s)", sc.Args["func"], sc.Args["field"], posOf(prog, x.Pos())), "backend": "def-use"})
					} else {
						res.Failures = append(res.Failures, fmt.Sprintf("%s stores a value that is not freshly allocated into %s at %s", sc.Args["func"], sc.Args["field"], posOf(prog, x.Pos())))
					}
				}
			case *ssa.Call:
				if _, isParam := x.Call.Value.(*ssa.Parameter); isParam {
					for _, a := range x.Call.Args {
						if _, isPtr := a.Type().Underlying().(*types.Pointer); !isPtr {
							continue
						}
						n++
						res.Obligations++
						if isFresh(a) {
							res.Discharged++
						} else {
							res.Failures = append(res.Failures, fmt.Sprintf("%s passes an object that is not freshly allocated to its callback at %s", sc.Args["func"], posOf(prog, x.Pos())))
						}
					}
				}
			}
		}
	}
	if n == 0 {
		res.Obligations++
		res.Failures = append(res.Failures, "no store to "+sc.Args["field"]+" and no callback call found (vacuous)")
	}
	return res
}

// errorOf: the error result of a call (last tuple component, or the value itself).
func errorOf(c *ssa.Call) ssa.Value {
	if refs := c.Referrers(); refs != nil {
		n := c.Call.Signature().Results().Len()
		for _, r := range *refs {
			if ex, ok := r.(*ssa.Extract); ok && ex.Index == n-1 {
				return ex
			}
		}
	}
	if c.Call.Signature().Results().Len() == 1 {
		return c
	}
	return nil
}

// nilBranchDominates: block b is only reached through the "v == nil" outcome of a test of v.
func nilBranchDominates(v ssa.Value, b *ssa.BasicBlock) bool {
	for _, hb := range b.Parent().Blocks {
		ifi, ok := hb.Instrs[len(hb.Instrs)-1].(*ssa.If)
		if !ok {
			continue
		}
		bin, ok := ifi.Cond.(*ssa.BinOp)
		if !ok || (bin.Op != token.NEQ && bin.Op != token.EQL) {
			continue
		}
		var other ssa.Value
		if c, ok := bin.Y.(*ssa.Const); ok && c.Value == nil {
			other = bin.X
		} else if c, ok := bin.X.(*ssa.Const); ok && c.Value == nil {
			other = bin.Y
		}
		if other != v {
			continue
		}
		succ := hb.Succs[1] // NEQ: false branch means nil
		if bin.Op == token.EQL {
			succ = hb.Succs[0]
		}
		if len(succ.Preds) == 1 && (succ == b || succ.Dominates(b)) {
			return true
		}
	}
	return false
}

// carriers: the set of values v such that "v == nil implies e == nil": e itself and, as a least fixpoint, every phi
// each of whose edges is a carrier or comes from a block reached only after some carrier was tested nil.
func carriers(fn *ssa.Function, e ssa.Value) map[ssa.Value]bool {
	c := map[ssa.Value]bool{e: true}
	for changed := true; changed; {
		changed = false
		for _, b := range fn.Blocks {
			for _, in := range b.Instrs {
				phi, ok := in.(*ssa.Phi)
				if !ok {
					break
				}
				if c[phi] {
					continue
				}
				all := true
				for i, edge := range phi.Edges {
					if c[edge] {
						continue
					}
					// the edge value is known non-nil on this edge (then the merged value is non-nil and says nothing),
					// or the edge is only taken after a carrier was tested nil
					okEdge := errKnownNonNil(edge, b.Preds[i]) || edgeIsNonNilBranch(edge, b.Preds[i], b)
					for v := range c {
						if nilBranchDominates(v, b.Preds[i]) {
							okEdge = true
						}
					}
					if !okEdge {
						all = false
						break
					}
				}
				if all {
					c[phi] = true
					changed = true
				}
			}
		}
	}
	return c
}

// renameGuardedBy: the rename call executes only on paths where the error of `op` is nil.
func renameGuardedBy(rename, op *ssa.Call) bool {
	e := errorOf(op)
	if e == nil {
		return false
	}
	for v := range carriers(rename.Parent(), e) {
		if nilBranchDominates(v, rename.Block()) {
			return true
		}
	}
	return false
}

// edgeIsNonNilBranch: the control-flow edge pred -> succ is itself the "v != nil" outcome of pred's test of v.
func edgeIsNonNilBranch(v ssa.Value, pred, succ *ssa.BasicBlock) bool {
	ifi, ok := pred.Instrs[len(pred.Instrs)-1].(*ssa.If)
	if !ok {
		return false
	}
	bin, ok := ifi.Cond.(*ssa.BinOp)
	if !ok || (bin.Op != token.NEQ && bin.Op != token.EQL) {
		return false
	}
	var other ssa.Value
	if c, ok := bin.Y.(*ssa.Const); ok && c.Value == nil {
		other = bin.X
	} else if c, ok := bin.X.(*ssa.Const); ok && c.Value == nil {
		other = bin.Y
	}
	if other != v {
		return false
	}
	nonNil := pred.Succs[0] // NEQ: true branch
	nilSucc := pred.Succs[1]
	if bin.Op == token.EQL {
		nonNil, nilSucc = pred.Succs[1], pred.Succs[0]
	}
	return nonNil == succ && nilSucc != succ
}

// rmw-atomic: in the function, no path leads from a read of the package variable to a write of it through an
// explicit Unlock of the mutex: a value read and the update based on it lie in one critical section (a deferred
// Unlock runs at return and splits nothing). Entries appended by another goroutine between a snapshot and a later
// reset would otherwise be lost. args: func, global (variable name), mutex (global:<name>).
func runRMWAtomic(prog *Prog, sc StaticCheck) *StaticResult {
	res := &StaticResult{Name: sc.Name, Kind: sc.Kind}
	fn := prog.FindFunc(modPath+"/"+sc.Pkg, sc.Args["func"])
	if fn == nil {
		res.Obligations = 1
		res.Failures = append(res.Failures, "binding: function "+sc.Args["func"]+" not found")
		return res
	}
	mu := parseLoc(sc.Args["mutex"])
	isG := func(v ssa.Value) bool {
		g, ok := v.(*ssa.Global)
		return ok && g.Name() == sc.Args["global"]
	}
	type pt struct {
		b *ssa.BasicBlock
		i int
	}
	var loads []pt
	nStores, nLocks := 0, 0
	for _, b := range fn.Blocks {
		for i, in := range b.Instrs {
			if u, ok := in.(*ssa.UnOp); ok && u.Op == token.MUL && isG(u.X) {
				loads = append(loads, pt{b, i})
			}
			if st, ok := in.(*ssa.Store); ok && isG(st.Addr) {
				nStores++
			}
			if ev, ok := lockCall(in, mu); ok && ev.lock {
				nLocks++
			}
		}
	}
	if len(loads) == 0 || nStores == 0 || nLocks == 0 {
		res.Obligations = 1
		res.Failures = append(res.Failures, fmt.Sprintf("binding: %s has %d reads, %d writes of %s and %d Lock calls on %s (stale obligation)", sc.Args["func"], len(loads), nStores, sc.Args["global"], nLocks, sc.Args["mutex"]))
		return res
	}
	for _, l := range loads {
		res.Obligations++
		type state struct {
			b      *ssa.BasicBlock
			i      int
			passed bool
		}
		seen := map[state]bool{}
		work := []state{{l.b, l.i + 1, false}}
		bad := ""
		for len(work) > 0 && bad == "" {
			s := work[len(work)-1]
			work = work[:len(work)-1]
			if seen[s] {
				continue
			}
			seen[s] = true
			passed := s.passed
			i := s.i
			for ; i < len(s.b.Instrs); i++ {
				in := s.b.Instrs[i]
				if ev, ok := lockCall(in, mu); ok && !ev.lock {
					passed = true
				}
				if st, ok := in.(*ssa.Store); ok && isG(st.Addr) && passed {
					bad = posOf(prog, st.Pos())
					break
				}
			}
			if bad != "" {
				break
			}
			for _, nb := range s.b.Succs {
				work = append(work, state{nb, 0, passed})
			}
		}
		if bad == "" {
			res.Discharged++
		} else {
			res.Failures = append(res.Failures, fmt.Sprintf("%s reads %s at %s and writes it at %s after releasing %s in between: the read and the update are not one critical section", sc.Args["func"], sc.Args["global"], posOf(prog, l.b.Instrs[l.i].Pos()), bad, sc.Args["mutex"]))
		}
	}
	res.Samples = append(res.Samples, map[string]interface{}{"obligation": fmt.Sprintf("%s#rmw-atomic(%s under %s)", sc.Args["func"], sc.Args["global"], sc.Args["mutex"]), "backend": "path search over the SSA control-flow graph", "reads": len(loads), "writes": nStores})
	return res
}
