#!/usr/bin/env python3
"""seedsweep.py [seed-dir-names...]
Cross-property sweep: for every confirmed seeded change under /verif/seeded/<ID>-<name>/ run EVERY claimed
property's quick check against a scratch worktree of /repo with the patch applied (PVERIF_REPO points the
checker at the worktree; /repo itself is not touched), and record in meta.json which checks report a
violation ("caught_by") and their first VIOLATION line. The worktree is removed at the end."""
import json, os, subprocess, sys, glob, tempfile, shutil, concurrent.futures

ENV = dict(os.environ, GOFLAGS='-mod=mod', GOPROXY='off', GOSUMDB='off', GOTOOLCHAIN='local')

def sh(cmd, cwd=None, env=ENV, timeout=1800):
    p = subprocess.run(cmd, shell=True, cwd=cwd, env=env, capture_output=True, text=True, timeout=timeout)
    return p.returncode, '\n'.join(l for l in (p.stdout + p.stderr).splitlines() if 'conda.cli.condarc' not in l)

def main():
    own_only = '--own' in sys.argv
    if own_only:
        sys.argv.remove('--own')
    seeds = sys.argv[1:] or sorted(os.path.basename(d) for d in glob.glob('/verif/seeded/C*'))
    man = json.load(open('/verif/MANIFEST.json'))
    props = [c['property_id'] for c in man['checks']]
    # snapshot of the checker (binary, property wiring, known findings) so that work in /verif during a long
    # sweep cannot influence it; the worktree below pins /repo at the HEAD the sweep started from
    home = tempfile.mkdtemp(prefix='sweephome-', dir='/tmp')
    os.makedirs(home + '/bin')
    shutil.copy('/verif/bin/pverif', home + '/bin/pverif')
    shutil.copytree('/verif/props', home + '/props')
    shutil.copy('/verif/known_findings.json', home + '/known_findings.json')
    wt = tempfile.mkdtemp(prefix='seedsweep-', dir='/tmp')
    os.rmdir(wt)
    rc, out = sh(f'git -C /repo worktree add --detach {wt} HEAD')
    assert rc == 0, out
    try:
        for s in seeds:
            d = f'/verif/seeded/{s}'
            meta = json.load(open(d + '/meta.json'))
            sh('git checkout -- . && git clean -fdq', cwd=wt)
            rc, out = sh(f'git apply {d}/patch.diff', cwd=wt)
            if rc != 0:
                meta['sweep_error'] = 'patch does not apply to current HEAD: ' + out[-200:]
                json.dump(meta, open(d + '/meta.json', 'w'), indent=1)
                print(s, 'PATCH DOES NOT APPLY', flush=True)
                continue
            # only checks whose packages contain a file touched by the patch can change their verdict (a check reads
            # nothing but the packages listed in its props file); the others are recorded as not affected
            touched = set()
            for l in open(d + '/patch.diff'):
                if l.startswith('+++ b/'):
                    touched.add(os.path.dirname(l[6:].strip()))
            relevant = []
            for p in props:
                pk = set(json.load(open(f'{home}/props/{p}.json')).get('packages', []))
                if (pk & touched and not own_only) or p == s.split('-')[0]:
                    relevant.append(p)
            def run(p):
                scratch = tempfile.mkdtemp(prefix='sweepout-', dir='/tmp')
                env = dict(ENV, PVERIF_REPO=wt, PVERIF_OUT=scratch, PVERIF_HOME=home)
                rc, out = sh(f'{home}/bin/pverif check {p} --tier quick', cwd=home, env=env)
                shutil.rmtree(scratch, ignore_errors=True)
                viol = [l for l in out.splitlines() if l.startswith('VIOLATION')]
                return p, rc, viol
            caught = {}
            with concurrent.futures.ThreadPoolExecutor(max_workers=2) as ex:
                for p, rc, viol in ex.map(run, relevant):
                    if rc == 1 and viol:
                        v = viol[0]
                        i = v.find('obligation=')
                        caught[p] = v[i:i + 220] if i >= 0 else v[:220]
                    elif rc not in (0, 1):
                        caught.setdefault('_errors', {})[p] = rc
            new = {k: v for k, v in caught.items() if k != '_errors'}
            if own_only:
                # keep what an earlier full sweep recorded for the other properties, refresh the own entry
                old = dict(meta.get('caught_by', {}))
                old.pop(s.split('-')[0], None)
                old.update(new)
                new = old
            meta['caught_by'] = new
            meta['caught_by_check'] = s.split('-')[0] in new
            if '_errors' in caught:
                meta['sweep_check_errors'] = caught['_errors']
            meta['swept_against'] = sorted(set(meta.get('swept_against', [])) | set(relevant)) if own_only else relevant
            json.dump(meta, open(d + '/meta.json', 'w'), indent=1)
            print(s, 'caught by', sorted(meta['caught_by']) or 'NONE', flush=True)
    finally:
        sh(f'git -C /repo worktree remove --force {wt}')
        shutil.rmtree(wt, ignore_errors=True)
        shutil.rmtree(home, ignore_errors=True)

main()
