package profile

import "testing"

// Demonstration for profile.Profile.ScaleN#loop3 (keep rule) on the pre-fix code: a sample whose
// only non-zero value sits in a column with ratio 1 was dropped.
func TestVerifFindingScaleNDropsSample(t *testing.T) {
	p := &Profile{
		SampleType: []*ValueType{{Type: "a", Unit: "count"}, {Type: "b", Unit: "ms"}},
		Sample:     []*Sample{{Value: []int64{5, 0}}, {Value: []int64{1, 1000}}},
	}
	if err := p.ScaleN([]float64{1, 0.001}); err != nil {
		t.Fatal(err)
	}
	if len(p.Sample) != 2 {
		t.Errorf("VERIF-FINDING: ScaleN([1, 0.001]) dropped the sample with values [5 0]; %d sample(s) left", len(p.Sample))
	}
}
