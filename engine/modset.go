package main

// Type- and field-level modification sets of functions, computed over the static
// call graph. Used for havoc at calls/loops and for frame obligations.

import (
	"fmt"
	"go/types"
	"sort"
	"strings"

	"golang.org/x/tools/go/ssa"
)

type ModSet struct {
	all       bool
	allocates bool
	cells     map[string]types.Type // memory name -> cell type
	// fresh: memories written only inside objects allocated during the call/loop; cells that
	// existed before keep their values (frame), see havocMods
	fresh map[string]types.Type
	maps      map[string]*types.Map // typeKey(map type) -> map type
	// field-level record for frame checks: "T.f" (struct field), "elem:T" (slice/array element), "deref:T"
	sites map[string][]string // what -> positions
	// unknown calls that forced all=true
	unknown map[string]bool
}

func newModSet() *ModSet {
	return &ModSet{fresh: map[string]types.Type{}, cells: map[string]types.Type{}, maps: map[string]*types.Map{}, sites: map[string][]string{}, unknown: map[string]bool{}}
}

func (m *ModSet) union(o *ModSet) {
	if o == nil {
		return
	}
	m.all = m.all || o.all
	m.allocates = m.allocates || o.allocates
	for k, v := range o.cells {
		m.cells[k] = v
		delete(m.fresh, k)
	}
	for k, v := range o.fresh {
		if _, hard := m.cells[k]; !hard {
			m.fresh[k] = v
		}
	}
	for k, v := range o.maps {
		m.maps[k] = v
	}
	for k, v := range o.sites {
		have := map[string]bool{}
		for _, x := range m.sites[k] {
			have[x] = true
		}
		for _, x := range v {
			if !have[x] {
				have[x] = true
				m.sites[k] = append(m.sites[k], x)
			}
		}
	}
	for k := range o.unknown {
		m.unknown[k] = true
	}
}

func (m *ModSet) addCellsOf(t types.Type) {
	var cells []leafCell
	leafCells(t, nil, &cells)
	for _, c := range cells {
		ct := c.typ
		if at, ok := ct.Underlying().(*types.Array); ok {
			m.addCellsOf(at.Elem())
			continue
		}
		m.cells[c.mem] = ct
	}
}

// memNames returns the registered memory names affected by this set.
func (m *ModSet) memNames(vc *VC) []string {
	var out []string
	if m.all {
		return append(out, vc.enc.memOrder...)
	}
	for name, t := range m.cells {
		vc.enc.registerMem(name, t)
		out = append(out, name)
	}
	for _, mt := range m.maps {
		d, v := vc.enc.mapMems(mt)
		out = append(out, d, v)
	}
	sort.Strings(out)
	return out
}

// freshNames: memories written only inside fresh objects.
func (m *ModSet) freshNames(vc *VC) []string {
	var out []string
	if m.all {
		return nil
	}
	for name, t := range m.fresh {
		if _, hard := m.cells[name]; hard {
			continue
		}
		vc.enc.registerMem(name, t)
		out = append(out, name)
	}
	sort.Strings(out)
	return out
}

func (m *ModSet) String() string {
	if m.all {
		var u []string
		for k := range m.unknown {
			u = append(u, k)
		}
		sort.Strings(u)
		return "ALL(" + strings.Join(u, ",") + ")"
	}
	var ks []string
	for k := range m.cells {
		ks = append(ks, k)
	}
	for k := range m.maps {
		ks = append(ks, "map:"+k)
	}
	sort.Strings(ks)
	return strings.Join(ks, ",")
}

// pure external functions (no writes to Go memory reachable from arguments)
var pureExternPrefixes = []string{
	"strings.", "strconv.", "math.", "errors.", "unicode.", "unicode/utf8.", "path/filepath.", "path.",
	"(*regexp.Regexp).", "regexp.", "bytes.", "time.", "(time.", "os.", "(*os.File).", "net/url.", "(*net/url.",
	"fmt.Sprint", "fmt.Errorf", "fmt.Sprintf", "fmt.Sprintln", "math/bits.", "(*strings.Builder).", "(*bytes.Buffer).",
	"(*github.com/google/pprof/internal/plugin", "io.", "sync.", "(*sync.", "sync/atomic.", "(*sync/atomic.",
	"html.", "encoding/hex.", "github.com/ianlancetaylor/demangle.", "(*strings.Reader).", "net/http.Error", "slices.", "maps.", "cmp.",
	"html/template.", "runtime.", "os/exec.", "(*os/exec.", "(*bufio.", "bufio.", "encoding/binary.", "(encoding/binary.", "hash/", "(*hash/", "crypto/",
	"internal/", "debug/", "(*debug/", "compress/", "(*compress/", "encoding/json.", "text/tabwriter.", "(*text/tabwriter.",
}

// externs that write through their arguments
var writingExterns = map[string]bool{
	"sort.Strings": true, "sort.Sort": true, "sort.Stable": true, "sort.Slice": true, "sort.SliceStable": true, "sort.Ints": true,
	"strconv.AppendInt": false, "encoding/binary.PutUvarint": true, "io.ReadFull": true, "io.Copy": true,
	"(*bufio.Reader).Read": true, "(*os.File).Read": true, "(*bytes.Buffer).Read": true, "copy": true,
	"encoding/json.Unmarshal": true, "(*encoding/json.Decoder).Decode": true,
}

func isPureExtern(full string) bool {
	if w, ok := writingExterns[full]; ok && w {
		return false
	}
	for _, p := range pureExternPrefixes {
		if strings.HasPrefix(full, p) {
			return true
		}
	}
	return false
}

func (p *Prog) ModSetOf(f *ssa.Function) *ModSet {
	if ms, ok := p.modsets[f]; ok {
		return ms
	}
	ms := newModSet()
	p.modsets[f] = ms // cycle guard: recursive calls see the partial set
	p.computeModSet(f, ms, map[*ssa.Function]bool{f: true})
	return ms
}

func (p *Prog) computeModSet(f *ssa.Function, ms *ModSet, visiting map[*ssa.Function]bool) {
	inPprof := f.Pkg != nil && strings.HasPrefix(f.Pkg.Pkg.Path(), modPath)
	if f.Parent() != nil {
		for q := f.Parent(); q != nil; q = q.Parent() {
			if q.Pkg != nil && strings.HasPrefix(q.Pkg.Pkg.Path(), modPath) {
				inPprof = true
			}
		}
	}
	if f.Pkg == nil && f.Blocks != nil && f.Synthetic != "" {
		inPprof = true // promoted-method wrappers and bound-method thunks: analyse the body
	}
	if f.Blocks == nil || !inPprof {
		full := f.String()
		if isPureExtern(full) {
			ms.allocates = true
			return
		}
		// external with effects: writes through slice/pointer arguments
		ms.allocates = true
		wrote := false
		for i := 0; i < f.Signature.Params().Len(); i++ {
			switch t := f.Signature.Params().At(i).Type().Underlying().(type) {
			case *types.Slice:
				ms.addCellsOf(t.Elem())
				wrote = true
			case *types.Pointer:
				ms.addCellsOf(t.Elem())
				wrote = true
			case *types.Interface:
				// the function may call the argument's methods: in-module implementations contribute their
				// effects; outside implementations write only their own state and the other arguments (assumed)
				if t.NumMethods() == 0 {
					ms.all = true
					ms.unknown[full] = true
					continue
				}
				p.assumed["implementations of interfaces outside the module write only memory reachable from the call arguments"] = true
				for mi := 0; mi < t.NumMethods(); mi++ {
					for _, fn := range p.implementations(t, t.Method(mi)) {
						if visiting[fn] {
							continue
						}
						if cached, ok := p.modsets[fn]; ok {
							ms.union(cached)
							continue
						}
						visiting[fn] = true
						sub := newModSet()
						p.modsets[fn] = sub
						p.computeModSet(fn, sub, visiting)
						delete(visiting, fn)
						ms.union(sub)
					}
				}
			}
		}
		_ = wrote
		return
	}
	pos := func(in ssa.Instruction) string {
		ps := p.Fset.Position(in.Pos())
		return fmt.Sprintf("%s:%d", strings.TrimPrefix(ps.Filename, repoDir+"/"), ps.Line)
	}
	for _, b := range f.Blocks {
		for _, in := range b.Instrs {
			switch x := in.(type) {
			case *ssa.Store:
				elem := x.Addr.Type().Underlying().(*types.Pointer).Elem()
				// stores to the function's own non-escaping locals are not effects
				if a, ok := x.Addr.(*ssa.Alloc); ok && !a.Heap {
					continue
				}
				if _, isFV := x.Addr.(*ssa.FreeVar); isFV && p.capPass == f {
					continue // second pass of capOnlyOf: direct stores to captured cells are accounted separately
				}
				ms.addStore(p, x.Addr, elem, nil)
				if !freshRoot(x.Addr, nil) {
					// stores into objects allocated by this very function cannot affect the caller's objects
					ms.sites[storeTarget(x.Addr)] = append(ms.sites[storeTarget(x.Addr)], pos(x))
				}
			case *ssa.MapUpdate:
				mt := x.Map.Type().Underlying().(*types.Map)
				ms.maps[typeKey(mt)] = mt
				ms.sites["map:"+types.TypeString(mt, nil)] = append(ms.sites["map:"+types.TypeString(mt, nil)], pos(x))
				// which field the map was read from, when that is evident: "mapof:T.f"; "mapof:?" when it is not
				// a local map (parameter, call result, ...), so that field-level frame obligations stay sound
				ms.sites[mapOrigin(x.Map)] = append(ms.sites[mapOrigin(x.Map)], pos(x))
			case *ssa.Alloc, *ssa.MakeSlice, *ssa.MakeMap, *ssa.MakeClosure, *ssa.MakeInterface, *ssa.MakeChan:
				ms.allocates = true
			case *ssa.Convert:
				ms.allocates = true
			case *ssa.Send, *ssa.Select:
				ms.all = true
				ms.unknown["channel op"] = true
			case ssa.CallInstruction:
				if c := x.Common(); c.StaticCallee() == nil && !c.IsInvoke() {
					if _, isB := c.Value.(*ssa.Builtin); !isB && closureOrigin(c.Value) == nil && p.globalFuncInit(c.Value) == nil {
						if fc := p.ContractFor(f); fc != nil && fc.Options["funcvalues"] == "pure" {
							// the function's own contract declares the function values it calls pure (an assumption listed
							// where that contract is checked): callers see no effect of these calls either
							ms.allocates = true
							continue
						}
					}
				}
				p.callMods(x.Common(), ms, visiting, pos(x))
			}
		}
	}
	// closures defined here are accounted when called or passed; include those that are passed around
	for _, a := range f.AnonFuncs {
		if !visiting[a] {
			sub := p.ModSetOf(a)
			ms.union(sub)
		}
	}
}

// freshRoot: the address is inside an object allocated by `within` (nil: anywhere in the
// function): the chain of FieldAddr/IndexAddr ends in an Alloc, or in a slice made by MakeSlice.
func freshRoot(addr ssa.Value, within map[*ssa.BasicBlock]bool) bool {
	for depth := 0; depth < 16; depth++ {
		switch a := addr.(type) {
		case *ssa.FieldAddr:
			addr = a.X
		case *ssa.IndexAddr:
			addr = a.X
		case *ssa.Slice:
			addr = a.X
		case *ssa.Alloc:
			return within == nil || within[a.Block()]
		case *ssa.MakeSlice:
			return within == nil || within[a.Block()]
		default:
			return false
		}
	}
	return false
}

// addStore records a store of a value of type elem through addr.
func (m *ModSet) addStore(p *Prog, addr ssa.Value, elem types.Type, within map[*ssa.BasicBlock]bool) {
	tmp := newModSet()
	if fa, ok := addr.(*ssa.FieldAddr); ok && isCellType(elem) {
		stT := fa.X.Type().Underlying().(*types.Pointer).Elem()
		if fm := p.fieldMem(stT, fa.Field); fm != "" {
			tmp.cells[fm] = elem
		} else {
			tmp.addCellsOf(elem)
		}
	} else {
		tmp.addCellsOf(elem)
	}
	if freshRoot(addr, within) {
		for k, v := range tmp.cells {
			if _, hard := m.cells[k]; !hard {
				m.fresh[k] = v
			}
		}
		return
	}
	for k, v := range tmp.cells {
		m.cells[k] = v
		delete(m.fresh, k)
	}
}

func storeTarget(addr ssa.Value) string {
	switch a := addr.(type) {
	case *ssa.FieldAddr:
		st := a.X.Type().Underlying().(*types.Pointer).Elem()
		name := types.TypeString(st, func(p *types.Package) string { return p.Name() })
		f := st.Underlying().(*types.Struct).Field(a.Field)
		return name + "." + f.Name()
	case *ssa.IndexAddr:
		switch u := a.X.Type().Underlying().(type) {
		case *types.Slice:
			return "elem:" + types.TypeString(u.Elem(), func(p *types.Package) string { return p.Name() })
		case *types.Pointer:
			return "elem:" + types.TypeString(u.Elem().Underlying().(*types.Array).Elem(), func(p *types.Package) string { return p.Name() })
		}
	case *ssa.Global:
		return "global:" + a.Name()
	case *ssa.Alloc:
		return "local:" + a.Comment
	case *ssa.FreeVar:
		return "captured:" + a.Name()
	}
	return "deref:" + types.TypeString(addr.Type().Underlying().(*types.Pointer).Elem(), func(p *types.Package) string { return p.Name() })
}

func (p *Prog) callMods(c *ssa.CallCommon, ms *ModSet, visiting map[*ssa.Function]bool, pos string) {
	if b, ok := c.Value.(*ssa.Builtin); ok {
		switch b.Name() {
		case "append":
			ms.allocates = true
			if st, ok := c.Args[0].Type().Underlying().(*types.Slice); ok {
				if freshSliceValue(c.Args[0], map[ssa.Value]bool{}) {
					// appending to a slice built by this very function (nil / make / earlier appends): only
					// freshly allocated backing arrays are written
					tmp := newModSet()
					tmp.addCellsOf(st.Elem())
					for k, v := range tmp.cells {
						if _, hard := ms.cells[k]; !hard {
							ms.fresh[k] = v
						}
					}
					return
				}
				ms.addCellsOf(st.Elem())
				ms.sites["append:"+types.TypeString(st.Elem(), func(p *types.Package) string { return p.Name() })] = append(ms.sites["append:"+types.TypeString(st.Elem(), nil)], pos)
			}
		case "copy":
			if st, ok := c.Args[0].Type().Underlying().(*types.Slice); ok {
				ms.addCellsOf(st.Elem())
				ms.sites["elem:"+types.TypeString(st.Elem(), func(p *types.Package) string { return p.Name() })] = append(ms.sites["elem:"+types.TypeString(st.Elem(), nil)], pos)
			}
		case "delete":
			if mt, ok := c.Args[0].Type().Underlying().(*types.Map); ok {
				ms.maps[typeKey(mt)] = mt
				ms.sites["map:"+types.TypeString(mt, nil)] = append(ms.sites["map:"+types.TypeString(mt, nil)], pos)
				ms.sites[mapOrigin(c.Args[0])] = append(ms.sites[mapOrigin(c.Args[0])], pos)
			}
		}
		return
	}
	if c.IsInvoke() {
		name := c.Method.FullName()
		if strings.HasSuffix(name, ".Error") || strings.HasSuffix(name, ".String") {
			ms.allocates = true
			return
		}
		p.invokeMods(c, ms, visiting, pos)
		return
	}
	callee := c.StaticCallee()
	if callee == nil {
		if mc, ok := c.Value.(*ssa.MakeClosure); ok {
			callee = mc.Fn.(*ssa.Function)
		}
	}
	if callee == nil {
		// call through a function value: parameters of function type are treated as pure (listed assumption)
		if _, ok := c.Value.(*ssa.Parameter); ok {
			ms.allocates = true
			return
		}
		// phi of parameters / static functions (e.g. "if f == nil { f = defaultF }")
		if phi, ok := c.Value.(*ssa.Phi); ok {
			allKnown := true
			for _, e := range phi.Edges {
				switch ev := e.(type) {
				case *ssa.Parameter:
				case *ssa.Function:
					if !visiting[ev] {
						ms.union(p.ModSetOf(ev))
					}
				case *ssa.ChangeType:
					if f, ok := ev.X.(*ssa.Function); ok {
						if !visiting[f] {
							ms.union(p.ModSetOf(f))
						}
					} else {
						allKnown = false
					}
				default:
					allKnown = false
				}
			}
			if allKnown {
				ms.allocates = true
				return
			}
		}
		// package-level function variable assigned once, in the initialiser (test seams such as elfOpen)
		if fn := p.globalFuncInit(c.Value); fn != nil {
			p.assumed["package-level function variables assigned only in the package initialiser keep that value"] = true
			callee = fn
		} else if fn := closureOrigin(c.Value); fn != nil {
			callee = fn
		} else {
			ms.all = true
			ms.unknown["dynamic call @"+pos] = true
			return
		}
	}
	// sort.Sort / sort.Stable with a statically known concrete sorter: effects are those of its methods
	if full := callee.String(); (full == "sort.Sort" || full == "sort.Stable") && len(c.Args) == 1 {
		if mi, ok := c.Args[0].(*ssa.MakeInterface); ok {
			t := mi.X.Type()
			ms.allocates = true
			okAll := true
			for _, name := range []string{"Len", "Less", "Swap"} {
				sel := p.SSA.MethodSets.MethodSet(t).Lookup(nil, name)
				if sel == nil {
					// unexported / package-local lookup
					for i := 0; i < p.SSA.MethodSets.MethodSet(t).Len(); i++ {
						if s := p.SSA.MethodSets.MethodSet(t).At(i); s.Obj().Name() == name {
							sel = s
						}
					}
				}
				if sel == nil {
					okAll = false
					continue
				}
				if m := p.SSA.MethodValue(sel); m != nil && !visiting[m] {
					ms.union(p.ModSetOf(m))
				}
			}
			if okAll {
				return
			}
		}
	}
	if visiting[callee] {
		return
	}
	if cached, ok := p.modsets[callee]; ok {
		ms.union(cached)
		return
	}
	visiting[callee] = true
	sub := newModSet()
	p.modsets[callee] = sub
	p.computeModSet(callee, sub, visiting)
	delete(visiting, callee)
	ms.union(sub)
}

func closureOrigin(v ssa.Value) *ssa.Function {
	switch x := v.(type) {
	case *ssa.MakeClosure:
		return x.Fn.(*ssa.Function)
	case *ssa.Function:
		return x
	case *ssa.UnOp:
		// load from an Alloc that holds a closure stored once
		if a, ok := x.X.(*ssa.Alloc); ok {
			var fn *ssa.Function
			cnt := 0
			for _, r := range *a.Referrers() {
				if s, ok := r.(*ssa.Store); ok && s.Addr == a {
					cnt++
					fn = closureOrigin(s.Val)
				}
			}
			if cnt == 1 {
				return fn
			}
		}
		// load from a captured variable (FreeVar) that the enclosing function binds to a cell holding a closure
		// stored exactly once (a local helper closure called from another local closure)
		if fv, ok := x.X.(*ssa.FreeVar); ok {
			if a := freeVarCell(fv); a != nil && !storedThroughCapture(a) {
				var fn *ssa.Function
				cnt := 0
				for _, r := range *a.Referrers() {
					if s, ok := r.(*ssa.Store); ok && s.Addr == a {
						cnt++
						fn = closureOrigin(s.Val)
					}
				}
				if cnt == 1 {
					return fn
				}
			}
		}
	case *ssa.ChangeType:
		return closureOrigin(x.X)
	}
	return nil
}

// freeVarCell: the Alloc in the enclosing function that a free variable is bound to (same cell at every
// MakeClosure of that function), or nil.
func freeVarCell(fv *ssa.FreeVar) *ssa.Alloc {
	fn := fv.Parent()
	par := fn.Parent()
	if par == nil {
		return nil
	}
	idx := -1
	for i, f := range fn.FreeVars {
		if f == fv {
			idx = i
		}
	}
	if idx < 0 {
		return nil
	}
	var cell *ssa.Alloc
	for _, b := range par.Blocks {
		for _, in := range b.Instrs {
			mc, ok := in.(*ssa.MakeClosure)
			if !ok || mc.Fn != fn {
				continue
			}
			a, ok := mc.Bindings[idx].(*ssa.Alloc)
			if !ok || (cell != nil && cell != a) {
				return nil
			}
			cell = a
		}
	}
	return cell
}

// storedThroughCapture: does any closure of the cell's function store into the cell through a captured reference?
func storedThroughCapture(a *ssa.Alloc) bool {
	par := a.Parent()
	var rec func(f *ssa.Function) bool
	rec = func(f *ssa.Function) bool {
		for _, b := range f.Blocks {
			for _, in := range b.Instrs {
				if st, ok := in.(*ssa.Store); ok {
					if fv, ok := st.Addr.(*ssa.FreeVar); ok && freeVarCell(fv) == a {
						return true
					}
				}
			}
		}
		for _, g := range f.AnonFuncs {
			if rec(g) {
				return true
			}
		}
		return false
	}
	for _, g := range par.AnonFuncs {
		if rec(g) {
			return true
		}
	}
	return false
}

// loopModSet: what a loop body may modify.
func (vc *VC) loopModSet(fr *frame, l *LoopInfo) *ModSet {
	ms := newModSet()
	visiting := map[*ssa.Function]bool{fr.fn: true}
	for b := range l.blocks {
		for _, in := range b.Instrs {
			switch x := in.(type) {
			case *ssa.Store:
				elem := x.Addr.Type().Underlying().(*types.Pointer).Elem()
				ms.addStore(vc.prog, x.Addr, elem, l.blocks)
			case *ssa.MapUpdate:
				mt := x.Map.Type().Underlying().(*types.Map)
				ms.maps[typeKey(mt)] = mt
			case *ssa.Alloc:
				ms.allocates = true
				elem := x.Type().Underlying().(*types.Pointer).Elem()
				tmp := newModSet()
				tmp.addCellsOf(elem)
				for k, v := range tmp.cells {
					if _, hard := ms.cells[k]; !hard {
						ms.fresh[k] = v
					}
				}
			case *ssa.MakeSlice:
				ms.allocates = true
				tmp := newModSet()
				tmp.addCellsOf(x.Type().Underlying().(*types.Slice).Elem())
				for k, v := range tmp.cells {
					if _, hard := ms.cells[k]; !hard {
						ms.fresh[k] = v
					}
				}
			case *ssa.MakeMap:
				ms.allocates = true
				mt := x.Type().Underlying().(*types.Map)
				ms.maps[typeKey(mt)] = mt
			case *ssa.MakeClosure, *ssa.MakeInterface, *ssa.MakeChan, *ssa.Convert:
				ms.allocates = true
			case *ssa.Go:
				// effects appear at Wait
			case ssa.CallInstruction:
				c := x.Common()
				if b, ok := c.Value.(*ssa.Builtin); ok && b.Name() == "append" && !(fr.fc != nil && fr.fc.Options["freshappend"] == "yes") {
					// (contract option freshappend=yes selects the fresh-only frame for appends to slices built in the function)
					// appends written directly in the loop body: plain havoc of the element memories at the
					// header (the fresh-only frame axiom is reserved for callees: it made loop proofs slower)
					ms.allocates = true
					if st, ok := c.Args[0].Type().Underlying().(*types.Slice); ok {
						ms.addCellsOf(st.Elem())
					}
					continue
				}
				callee := c.StaticCallee()
				if callee != nil && strings.HasSuffix(callee.String(), "sync.WaitGroup).Wait") && fr.goMods != nil {
					ms.union(fr.goMods)
				}
				if callee != nil {
					if fc := vc.prog.ContractFor(callee); fc != nil && fc.Pure {
						continue
					}
				}
				if callee == nil && !c.IsInvoke() && fr.fc != nil && fr.fc.Options["funcvalues"] == "pure" && closureOrigin(c.Value) == nil && vc.prog.globalFuncInit(c.Value) == nil {
					// a function value (parameter or field of function type) called in a function whose contract declares
					// funcvalues=pure: the generator treats the call as a pure function of its arguments (listed assumption)
					ms.allocates = true
					continue
				}
				vc.prog.callMods(c, ms, visiting, "")
			}
		}
	}
	return ms
}

// uiMethods: methods of plugin.UI; assumed (listed) not to write pprof memory: they format or read text.
func isUIMethod(name string) bool {
	return strings.HasPrefix(name, "(github.com/google/pprof/internal/plugin.UI).") || strings.HasPrefix(name, "(github.com/google/pprof/driver.UI).")
}

// invokeMods: effects of a dynamically dispatched call. In-module implementations (class hierarchy over
// every named type of the module) contribute their own modification sets; implementations outside the
// module are assumed (listed assumption) to write only memory reachable from the call's arguments.
func (p *Prog) invokeMods(c *ssa.CallCommon, ms *ModSet, visiting map[*ssa.Function]bool, pos string) {
	name := c.Method.FullName()
	ms.allocates = true
	if isUIMethod(name) {
		p.assumed["plugin.UI methods do not write pprof memory"] = true
		return
	}
	iface, _ := c.Value.Type().Underlying().(*types.Interface)
	if iface == nil {
		ms.all = true
		ms.unknown["invoke "+name+" @"+pos] = true
		return
	}
	for _, fn := range p.implementations(iface, c.Method) {
		if visiting[fn] {
			continue
		}
		if cached, ok := p.modsets[fn]; ok {
			ms.union(cached)
			continue
		}
		visiting[fn] = true
		sub := newModSet()
		p.modsets[fn] = sub
		p.computeModSet(fn, sub, visiting)
		delete(visiting, fn)
		ms.union(sub)
	}
	p.assumed["implementations of interfaces outside the module write only memory reachable from the call arguments"] = true
	seen := map[string]bool{}
	for _, a := range c.Args {
		t := a.Type()
		if mi, ok := a.(*ssa.MakeInterface); ok {
			t = mi.X.Type()
		}
		if !ms.reach(t, seen, 0) {
			ms.all = true
			ms.unknown["invoke "+name+" with an argument of unknown dynamic type @"+pos] = true
			return
		}
	}
}

// reach adds every cell reachable from a value of type t through pointers, slices and maps. false: not enumerable.
func (m *ModSet) reach(t types.Type, seen map[string]bool, depth int) bool {
	k := typeKey(t)
	if seen[k] {
		return true
	}
	seen[k] = true
	if depth > 12 {
		return false
	}
	switch u := t.Underlying().(type) {
	case *types.Basic:
		return true
	case *types.Pointer:
		m.addCellsOf(u.Elem())
		if at, ok := u.Elem().Underlying().(*types.Array); ok {
			return m.reach(at.Elem(), seen, depth+1)
		}
		return m.reach(u.Elem(), seen, depth+1)
	case *types.Slice:
		m.addCellsOf(u.Elem())
		return m.reach(u.Elem(), seen, depth+1)
	case *types.Array:
		return m.reach(u.Elem(), seen, depth+1)
	case *types.Map:
		m.maps[typeKey(u)] = u
		return m.reach(u.Key(), seen, depth+1) && m.reach(u.Elem(), seen, depth+1)
	case *types.Struct:
		for i := 0; i < u.NumFields(); i++ {
			if !m.reach(u.Field(i).Type(), seen, depth+1) {
				return false
			}
		}
		return true
	case *types.Signature:
		return true // function values are treated as pure (funcvalues=pure)
	case *types.Interface:
		return isErrorType(t)
	case *types.Chan:
		return false
	}
	return false
}

// implementations: methods named like m of every in-module named type (or pointer to it) implementing iface.
func (p *Prog) implementations(iface *types.Interface, m *types.Func) []*ssa.Function {
	key := iface.String() + "#" + m.Name()
	if r, ok := p.implCache[key]; ok {
		return r
	}
	var out []*ssa.Function
	var paths []string
	for path := range p.SSAPkgs {
		paths = append(paths, path)
	}
	sort.Strings(paths)
	for _, path := range paths {
		sp := p.SSAPkgs[path]
		if sp == nil {
			continue
		}
		var names []string
		for n := range sp.Members {
			names = append(names, n)
		}
		sort.Strings(names)
		for _, n := range names {
			tn, ok := sp.Members[n].(*ssa.Type)
			if !ok {
				continue
			}
			if _, isIface := tn.Type().Underlying().(*types.Interface); isIface {
				continue
			}
			for _, T := range []types.Type{tn.Type(), types.NewPointer(tn.Type())} {
				if !types.Implements(T, iface) {
					continue
				}
				ms := p.SSA.MethodSets.MethodSet(T)
				for i := 0; i < ms.Len(); i++ {
					if sel := ms.At(i); sel.Obj().Name() == m.Name() {
						if fn := p.SSA.MethodValue(sel); fn != nil {
							out = append(out, fn)
						}
					}
				}
				break
			}
		}
	}
	p.implCache[key] = out
	return out
}

// globalFuncInit: v is a load of a package-level variable of function type whose only store in the whole
// package is `var g = f` in the initialiser; returns f.
func (p *Prog) globalFuncInit(v ssa.Value) *ssa.Function {
	u, ok := v.(*ssa.UnOp)
	if !ok {
		return nil
	}
	g, ok := u.X.(*ssa.Global)
	if !ok || g.Pkg == nil {
		return nil
	}
	var res *ssa.Function
	count := 0
	for _, m := range g.Pkg.Members {
		f, ok := m.(*ssa.Function)
		if !ok {
			continue
		}
		fns := append([]*ssa.Function{f}, f.AnonFuncs...)
		for _, fn := range fns {
			for _, b := range fn.Blocks {
				for _, in := range b.Instrs {
					st, ok := in.(*ssa.Store)
					if !ok || st.Addr != g {
						continue
					}
					count++
					if f.Name() != "init" {
						return nil
					}
					val := st.Val
					if ct, ok := val.(*ssa.ChangeType); ok {
						val = ct.X
					}
					if sf, ok := val.(*ssa.Function); ok {
						res = sf
					} else {
						return nil
					}
				}
			}
		}
	}
	if count != 1 {
		return nil
	}
	return res
}

// mapOrigin: "mapof:T.f" if the map value is loaded from field f of struct T, "mapof:local" if it was made in
// this function, "mapof:?" otherwise.
func mapOrigin(v ssa.Value) string {
	for depth := 0; depth < 8; depth++ {
		switch x := v.(type) {
		case *ssa.UnOp:
			if fa, ok := x.X.(*ssa.FieldAddr); ok {
				return "mapof:" + storeTarget(fa)
			}
			if fv, ok := x.X.(*ssa.FreeVar); ok {
				// captured variable: what the enclosing function stores into it
				fn := fv.Parent()
				if fn == nil || fn.Parent() == nil {
					return "mapof:?"
				}
				idx := -1
				for i, f := range fn.FreeVars {
					if f == fv {
						idx = i
					}
				}
				res := "mapof:?"
				for _, b := range fn.Parent().Blocks {
					for _, in := range b.Instrs {
						if mc, ok := in.(*ssa.MakeClosure); ok && mc.Fn == fn && idx >= 0 && idx < len(mc.Bindings) {
							if a, ok := mc.Bindings[idx].(*ssa.Alloc); ok {
								res = "mapof:local"
								for _, r := range *a.Referrers() {
									if st, ok := r.(*ssa.Store); ok && st.Addr == a {
										if o := mapOrigin(st.Val); o != "mapof:local" {
											return o
										}
									}
								}
							}
						}
					}
				}
				return res
			}
			if a, ok := x.X.(*ssa.Alloc); ok {
				// local variable holding a map: look at what is stored into it
				for _, r := range *a.Referrers() {
					if st, ok := r.(*ssa.Store); ok && st.Addr == a {
						if o := mapOrigin(st.Val); o != "mapof:local" {
							return o
						}
					}
				}
				return "mapof:local"
			}
			return "mapof:?"
		case *ssa.MakeMap:
			return "mapof:local"
		case *ssa.Field:
			if st, ok := x.X.Type().Underlying().(*types.Struct); ok {
				return "mapof:" + types.TypeString(x.X.Type(), func(p *types.Package) string { return p.Name() }) + "." + st.Field(x.Field).Name()
			}
			return "mapof:?"
		case *ssa.Phi:
			res := "mapof:local"
			for _, e := range x.Edges {
				if o := mapOrigin(e); o != "mapof:local" {
					res = o
				}
			}
			return res
		case *ssa.ChangeType:
			v = x.X
		case *ssa.Const:
			return "mapof:local"
		default:
			return "mapof:?"
		}
	}
	return "mapof:?"
}

// freshSliceValue: the slice value can only denote a backing array allocated by the enclosing function
// (nil, make, or the result of appending to such a slice).
func freshSliceValue(v ssa.Value, seen map[ssa.Value]bool) bool {
	if seen[v] {
		return true
	}
	seen[v] = true
	switch x := v.(type) {
	case *ssa.Const:
		return x.Value == nil
	case *ssa.MakeSlice:
		return true
	case *ssa.Phi:
		for _, e := range x.Edges {
			if !freshSliceValue(e, seen) {
				return false
			}
		}
		return true
	case *ssa.Call:
		if b, ok := x.Call.Value.(*ssa.Builtin); ok && b.Name() == "append" {
			return freshSliceValue(x.Call.Args[0], seen)
		}
	case *ssa.Slice:
		if _, isSl := x.X.Type().Underlying().(*types.Slice); isSl {
			return freshSliceValue(x.X, seen)
		}
	}
	return false
}

// capOnlyOf: memories that closure f (transitively) writes ONLY by direct stores to its own captured variables:
// memory name -> indices of those free variables. At a call of the closure with known bindings such a memory is not
// havoced as a whole: only the bound cells get new values (everything else in it is framed).
func (p *Prog) capOnlyOf(f *ssa.Function) map[string][]int {
	if p.capOnly == nil {
		p.capOnly = map[*ssa.Function]map[string][]int{}
	}
	if m, ok := p.capOnly[f]; ok {
		return m
	}
	out := map[string][]int{}
	p.capOnly[f] = out
	if f.Blocks == nil || len(f.FreeVars) == 0 {
		return out
	}
	ms2 := newModSet()
	p.capPass = f
	p.computeModSet(f, ms2, map[*ssa.Function]bool{f: true})
	p.capPass = nil
	if ms2.all {
		return out
	}
	for _, b := range f.Blocks {
		for _, in := range b.Instrs {
			st, ok := in.(*ssa.Store)
			if !ok {
				continue
			}
			fv, ok := st.Addr.(*ssa.FreeVar)
			if !ok {
				continue
			}
			idx := -1
			for i, x := range f.FreeVars {
				if x == fv {
					idx = i
				}
			}
			elem := fv.Type().Underlying().(*types.Pointer).Elem()
			if idx < 0 || !isCellType(elem) {
				continue
			}
			tmp := newModSet()
			tmp.addCellsOf(elem)
			for name := range tmp.cells {
				if _, other := ms2.cells[name]; other {
					continue
				}
				dup := false
				for _, k := range out[name] {
					if k == idx {
						dup = true
					}
				}
				if !dup {
					out[name] = append(out[name], idx)
				}
			}
		}
	}
	return out
}
