package main

// Top-level VC generation for one function under contract, and query assembly.

import (
	"fmt"
	"regexp"
	"go/types"
	"strings"

	"golang.org/x/tools/go/ssa"
)

func (p *Prog) shortPkg(path string) string {
	i := strings.LastIndex(path, "/")
	return path[i+1:]
}

func GenFunc(prog *Prog, fn *ssa.Function, fc *FuncContract) *VC {
	curDefs = map[string]string{}
	enc := NewEncoder(prog, fc.Arith)
	enc.absDiv = fc.Options["divabs"] == "yes"
	enc.absFloat = fc.Options["floatabs"] == "yes"
	if enc.absFloat {
		enc.notes["floating-point arithmetic abstracted as uninterpreted functions in this function (option floatabs)"] = true
	}
	enc.basePrelude()
	vc := &VC{enc: enc, prog: prog, fn: fn, fc: fc, clos: map[string]*closureVal{}, memDeclared: map[string]bool{}, recSpecs: map[string]*recSpecInfo{}, nameCount: map[string]int{}}
	vc.qname = prog.shortPkg(fn.Pkg.Pkg.Path()) + "." + fc.Name
	vc.noSafety = fc.NoSafety
	// nosafety safetykinds=index,slice: functional clauses plus the listed kinds of safety obligations (in the function's
	// own body) — for functions whose pointer preconditions are not stated but whose index arithmetic is decidable
	vc.safetyKinds = map[string]bool{}
	for _, k := range strings.Split(fc.Options["safetykinds"], ",") {
		if k != "" {
			vc.safetyKinds[k] = true
		}
	}
	fr := vc.newFrame(fn, fc, 0)
	vc.top = fr
	// entry state
	enc.addPre("wm@entry", "(declare-const wm@entry Int)\n(assert (>= wm@entry 0))")
	st0 := &State{mem: map[string]string{}, wm: "wm@entry", epoch: vc.newEpoch("entry", nil, nil)}
	for _, p := range fn.Params {
		name := "|" + p.Name() + "@in|"
		vc.emit(fmt.Sprintf("(declare-const %s %s)", name, enc.sortOf(p.Type())))
		vc.assume(enc.wellFormed(name, p.Type(), st0.wm))
		if forceBounded > 0 {
			if _, isSl := p.Type().Underlying().(*types.Slice); isSl {
				// bounded exploration: small inputs make model finding with quantified preconditions feasible
				vc.assume(fmt.Sprintf("(and (<= (s.len %s) %d) (= (s.off %s) 0))", name, forceBounded, name))
			}
		}
		fr.params = append(fr.params, Val{T: name, Typ: p.Type()})
	}
	for _, fv := range fn.FreeVars {
		name := "|" + fv.Name() + "@fv|"
		vc.emit(fmt.Sprintf("(declare-const %s %s)", name, enc.sortOf(fv.Type())))
		vc.assume(enc.wellFormed(name, fv.Type(), st0.wm))
		vc.assume(not(fmt.Sprintf("(= (p.obj %s) 0)", name)))
		// a captured variable is an allocation of its own: not a field or element of another object,
		// and distinct from the other captured variables
		if _, isPtr := fv.Type().Underlying().(*types.Pointer); isPtr {
			vc.assume(fmt.Sprintf("(and (= (p.idx %s) 0) (= (p.fld %s) 0))", name, name))
			for _, o := range fr.freeVars {
				vc.assume(not(fmt.Sprintf("(= (p.obj %s) (p.obj %s))", name, o.T)))
			}
		}
		fr.freeVars = append(fr.freeVars, Val{T: name, Typ: fv.Type()})
	}
	fr.entrySt = st0.clone()
	lk := func(name string) (Val, bool) { return vc.paramLookup(fr, name) }
	ctx := &SpecCtx{vc: vc, lookup: lk, st: st0, oldSt: st0, oldLookup: lk, pkg: fn.Pkg.Pkg, fnName: fn.Name()}
	var reqs []string
	for _, rq := range fc.Requires {
		t, err := ctx.EvalBool(rq.E)
		if err != nil {
			vc.errorf("requires %q: %v", rq.Text, err)
			continue
		}
		reqs = append(reqs, t)
		vc.assume(t)
	}
	// vacuity guard: the precondition (with well-formedness of inputs) is satisfiable
	// (a function without requires has nothing that could be contradictory: inputs are only assumed well formed)
	if len(fc.Requires) > 0 {
		cover := vc.oblige("cover", "cover.requires", "precondition is satisfiable", vc.pos(fn.Pos()), "true", "false")
		cover.ExpectFail = true
	}
	// global invariants: postconditions of a package initialiser, assumed at entry; assumed after the cover so the vacuity guard concerns the requires only; sound because the
	// initialiser is verified against them and the "global-frame" static obligation shows nothing else writes the data
	for _, u := range fc.Uses {
		t, err := vc.globalInvariant(u, st0)
		if err != nil {
			vc.errorf("uses %s: %v", u, err)
			continue
		}
		reqs = append(reqs, t)
		vc.assume(t)
		enc.notes["global invariant "+u+" assumed at entry (established by the package initialiser's contract, preserved per the global-frame obligation)"] = true
	}
	for i := range fc.MustCalls {
		name := fmt.Sprintf("calledfn.%d", i)
		if enc.mapMemSorts == nil {
			enc.mapMemSorts = map[string]string{}
		}
		enc.mapMemSorts[name] = "Bool"
		st0.mem[name] = "false"
	}
	vc.runBody(fr, st0, "true")
	for _, mc := range fc.MustCalls {
		if mc.Hits == 0 {
			vc.errorf("mustcall %s: no call of %s in %s (stale clause)", mc.Callee, mc.Callee, fn.Name())
		}
		if mc.Applied == 0 {
			vc.errorf("mustcall %s of %s: the condition could be evaluated at no return statement (stale clause)", mc.Callee, fn.Name())
		}
		mc.Hits, mc.Applied, mc.Skipped = 0, 0, 0
	}
	for _, ac := range fc.AtReturns {
		if ac.Applied == 0 {
			vc.errorf("atreturn clause %q of %s could be evaluated at no return statement (stale clause)", ac.Text, fn.Name())
		}
		ac.Applied, ac.Skipped = 0, 0
	}
	for _, lc := range fc.Loops {
		for _, sc := range lc.Steps {
			if sc.Applied == 0 {
				vc.errorf("step clause %q in loop %d of %s could be evaluated at no back edge (stale clause)", sc.Text, lc.Ordinal, fn.Name())
			}
			sc.Applied, sc.Skipped = 0, 0
		}
		for _, mc := range lc.MustCalls {
			if mc.Hits == 0 {
				vc.errorf("mustcall %s: no call of %s inside loop %d of %s (stale clause)", mc.Callee, mc.Callee, lc.Ordinal, fn.Name())
			}
			if mc.Applied == 0 {
				vc.errorf("mustcall %s in loop %d of %s: the condition could be evaluated at no back edge (stale clause)", mc.Callee, lc.Ordinal, fn.Name())
			}
			mc.Hits, mc.Applied, mc.Skipped = 0, 0, 0
		}
	}
	for _, cs := range fc.CallSites {
		if cs.Hits > 0 && cs.C.Applied == 0 {
			vc.errorf("callsite %s %q: the clause could be evaluated at no call of %s (stale clause: %d call(s) skipped)", cs.Callee, cs.C.Text, cs.Callee, cs.C.Skipped)
		}
		cs.C.Applied, cs.C.Skipped = 0, 0
		if cs.Hits == 0 {
			vc.errorf("callsite %s: no call of %s in %s (stale clause)", cs.Callee, cs.Callee, fn.Name())
		}
		cs.Hits = 0
	}
	// postconditions: all return points are merged into one exit state
	if len(fr.rets) > 0 {
		var conds []string
		var states []*State
		for _, r := range fr.rets {
			conds = append(conds, r.reach)
			states = append(states, r.st)
		}
		exitSt := vc.mergeStates(conds, states)
		exitReach := vc.def("R.exit", "Bool", or(conds...))
		var results []Val
		for i := 0; i < fn.Signature.Results().Len(); i++ {
			rt := fn.Signature.Results().At(i).Type()
			term := fr.rets[len(fr.rets)-1].results[i].T
			for k := len(fr.rets) - 2; k >= 0; k-- {
				if fr.rets[k].results[i].T != term {
					term = fmt.Sprintf("(ite %s %s %s)", fr.rets[k].reach, fr.rets[k].results[i].T, term)
				}
			}
			results = append(results, Val{T: vc.def(fmt.Sprintf("result%d", i), enc.sortOf(rt), term), Typ: rt})
		}
		rn := vc.calleeResultNames(fn, results)
		lk2 := func(name string) (Val, bool) {
			if v, ok := rn[name]; ok {
				return v, true
			}
			return vc.paramLookup(fr, name)
		}
		ctx2 := &SpecCtx{vc: vc, lookup: lk2, st: exitSt, oldSt: st0, oldLookup: lk, pkg: fn.Pkg.Pkg, fnName: fn.Name(), fr: fr}
		for k, en := range fc.Ensures {
			t, err := ctx2.EvalBool(en.E)
			if err != nil {
				vc.errorf("ensures %q: %v", en.Text, err)
				continue
			}
			o := vc.oblige("ensures", fmt.Sprintf("ensures%s", labelOr(en.Label, k)), en.Text, vc.pos(fn.Pos()), exitReach, t)
			o.Vars = map[string]string{}
			for i, p := range fn.Params {
				o.Vars[p.Name()] = fr.params[i].T
			}
			for name, v := range rn {
				o.Vars[name] = v.T
			}
		}
	}
	if len(fr.rets) == 0 && len(fc.Ensures) > 0 {
		vc.errorf("function never returns; ensures clauses are vacuous")
	}
	return vc
}

// lazyPre: assert-only prelude blocks and the symbol whose use makes them relevant.
var lazyPre = map[string]string{
	"strjoin.ax": "strjoin", "fmtnum.strconv.FormatInt.ax": "fmtnum.strconv.FormatInt", "fmtnum.strconv.FormatUint.ax": "fmtnum.strconv.FormatUint",
	"u2i8.ax": "2i8|i2bv8", "u2i16.ax": "2i16|i2bv16", "u2i32.ax": "2i32|i2bv32", "u2i64.ax": "2i64|i2bv64",
	"strax":     "strlen",
	"strlt.ax":  "strlt",
	"strsub.ax": "strsub",
}

var alwaysPre = map[string]bool{"Str": true, "Opaque": true, "Ptr": true, "Slice": true, "Iface": true, "nilptr": true, "nilslice": true, "niliface": true, "wm@entry": true, "tdiv": true}

func isSymChar(c byte) bool {
	return c == '_' || c == '.' || c == '!' || c == '@' || c == '|' || c == '$' || c == '-' || (c >= '0' && c <= '9') || (c >= 'a' && c <= 'z') || (c >= 'A' && c <= 'Z')
}

// mentions reports whether sym occurs in text as a whole symbol.
func mentions(text, sym string) bool {
	for off := 0; ; {
		i := strings.Index(text[off:], sym)
		if i < 0 {
			return false
		}
		i += off
		j := i + len(sym)
		if (i == 0 || !isSymChar(text[i-1])) && (j >= len(text) || !isSymChar(text[j])) {
			return true
		}
		off = i + 1
	}
}

// primarySymbol of a prelude entry: the first declared/defined name.
func primarySymbol(decl string) string {
	for _, kw := range []string{"(declare-fun ", "(declare-const ", "(define-fun-rec ", "(define-fun "} {
		if strings.HasPrefix(decl, kw) {
			rest := decl[len(kw):]
			if strings.HasPrefix(rest, "|") {
				if k := strings.Index(rest[1:], "|"); k >= 0 {
					return rest[:k+2]
				}
			}
			if k := strings.IndexAny(rest, " ()"); k >= 0 {
				return rest[:k]
			}
		}
	}
	if strings.HasPrefix(decl, "(declare-datatypes ((") {
		rest := decl[len("(declare-datatypes (("):]
		if k := strings.IndexAny(rest, " "); k >= 0 {
			return rest[:k]
		}
	}
	return ""
}

func (vc *VC) Query(o *Obligation, wantModel bool) string {
	var sb strings.Builder
	var body strings.Builder
	goal := fmt.Sprintf("(assert (not (=> %s %s)))\n", o.Path, o.Goal)
	for _, l := range pruneMemLines(vc.lines[:o.lineIdx], goal) {
		body.WriteString(l)
		body.WriteString("\n")
	}
	rest := body.String() + goal
	sb.WriteString("(set-option :produce-models true)\n(set-logic ALL)\n")
	// prelude: include an entry only if the query (transitively) mentions its symbol
	pre := vc.enc.pre
	keys := vc.enc.preKeys
	inc := make([]bool, len(pre))
	litDecls := vc.enc.strLitDecls(rest + strings.Join(pre, "\n"))
	needed := rest + strings.Join(litDecls, "\n")
	for changed := true; changed; {
		changed = false
		for i := len(pre) - 1; i >= 0; i-- {
			if inc[i] {
				continue
			}
			sym := primarySymbol(pre[i])
			if s, ok := lazyPre[keys[i]]; ok {
				sym = s
				if strings.Contains(s, "|") {
					hit := false
					for _, alt := range strings.Split(s, "|") {
						if strings.Contains(needed, alt) {
							hit = true
						}
					}
					if hit && !inc[i] {
						inc[i] = true
						needed += pre[i] + "\n"
						changed = true
					}
					continue
				}
			}
			if strings.HasSuffix(keys[i], ".ax") && sym == "" {
				sym = strings.TrimSuffix(keys[i], ".ax")
			}
			if strings.HasPrefix(pre[i], "(declare-datatypes") && sym != "" && strings.Contains(needed, sym) {
				inc[i] = true
				needed += pre[i] + "\n"
				changed = true
				continue
			}
			if alwaysPre[keys[i]] || (sym != "" && mentions(needed, sym)) || (sym == "" && !strings.HasSuffix(keys[i], ".ax")) {
				inc[i] = true
				needed += pre[i] + "\n"
				changed = true
			}
		}
	}
	litsDone := false
	for i, p := range pre {
		if inc[i] {
			sb.WriteString(p)
			sb.WriteString("\n")
		}
		if keys[i] == "str.empty" || keys[i] == "strempty" {
			// string literals right after the string primitives: later prelude entries may mention them
			for _, l := range litDecls {
				sb.WriteString(l)
				sb.WriteString("\n")
			}
			litsDone = true
		}
	}
	if !litsDone {
		for _, l := range litDecls {
			sb.WriteString(l)
			sb.WriteString("\n")
		}
	}
	for _, l := range vc.enc.strLitFacts(needed) {
		sb.WriteString(l)
		sb.WriteString("\n")
	}
	if vc.enc.absFloat {
		// floating-point arithmetic as uninterpreted functions (option floatabs): a sound abstraction
		// for obligations that only need "the same operands give the same result"
		repl := strings.NewReplacer(
			"(fp.mul RNE ", "(afp.mul ", "(fp.add RNE ", "(afp.add ", "(fp.sub RNE ", "(afp.sub ", "(fp.div RNE ", "(afp.div ",
			"(fp.roundToIntegral RNA ", "(afp.round ", "((_ to_fp 11 53) RNE ", "(afp.of.sbv64 ", "((_ to_fp_unsigned 11 53) RNE ", "(afp.of.ubv64 ",
			"((_ fp.to_sbv 64) RTZ ", "(afp.to.sbv64 ", "((_ fp.to_ubv 64) RTZ ", "(afp.to.ubv64 ")
		rest = repl.Replace(rest)
		F := fp64
		sb.WriteString(fmt.Sprintf("(declare-fun afp.mul (%s %s) %s)\n(declare-fun afp.add (%s %s) %s)\n(declare-fun afp.sub (%s %s) %s)\n(declare-fun afp.div (%s %s) %s)\n(declare-fun afp.round (%s) %s)\n(declare-fun afp.of.sbv64 ((_ BitVec 64)) %s)\n(declare-fun afp.of.ubv64 ((_ BitVec 64)) %s)\n(declare-fun afp.to.sbv64 (%s) (_ BitVec 64))\n(declare-fun afp.to.ubv64 (%s) (_ BitVec 64))\n",
			F, F, F, F, F, F, F, F, F, F, F, F, F, F, F, F, F, F))
	}
	sb.WriteString(rest)
	sb.WriteString("(check-sat)\n")
	if wantModel {
		sb.WriteString("(get-model)\n")
	}
	return sb.String()
}

var quotedRe = regexp.MustCompile(`\|[^|]*\|`)

// pruneMemLines: backward slice of the body. Definitions and declarations are kept only
// when (transitively) referenced from the goal or from a kept assertion; per-memory axioms
// (well-formedness, frames, bulk definitions: "(assert (forall ((p Ptr)) ...") are kept only
// when the memory version they constrain is referenced. Ordinary assertions are always kept.
func pruneMemLines(lines []string, goal string) []string {
	type info struct {
		kind string // def, assert, memax
		name string
		syms []string
	}
	infos := make([]info, len(lines))
	for i, l := range lines {
		syms := quotedRe.FindAllString(l, -1)
		switch {
		case strings.HasPrefix(l, "(define-fun |") || strings.HasPrefix(l, "(declare-const |"):
			if len(syms) > 0 {
				infos[i] = info{kind: "def", name: syms[0], syms: syms[1:]}
			} else {
				infos[i] = info{kind: "assert", syms: syms}
			}
		case strings.HasPrefix(l, "(assert (forall ((p Ptr))") && len(syms) > 0 && (strings.HasPrefix(syms[0], "|M_") || strings.HasPrefix(syms[0], "|F_") || strings.HasPrefix(syms[0], "|MD_") || strings.HasPrefix(syms[0], "|MV_")):
			infos[i] = info{kind: "memax", name: syms[0], syms: syms[1:]}
		default:
			infos[i] = info{kind: "assert", syms: syms}
		}
	}
	needed := map[string]bool{}
	for _, s := range quotedRe.FindAllString(goal, -1) {
		needed[s] = true
	}
	keep := make([]bool, len(lines))
	for changed := true; changed; {
		changed = false
		for i := len(lines) - 1; i >= 0; i-- {
			if keep[i] {
				continue
			}
			in := infos[i]
			k := false
			switch in.kind {
			case "assert":
				k = true
			case "def", "memax":
				k = needed[in.name]
			}
			if k {
				keep[i] = true
				changed = true
				for _, s := range in.syms {
					needed[s] = true
				}
			}
		}
	}
	var out []string
	for i, l := range lines {
		if keep[i] {
			out = append(out, l)
		}
	}
	return out
}

var _ = types.Typ

// globalInvariant evaluates the ensures clause <label> of package <name>'s init contract in state st.
func (vc *VC) globalInvariant(ref string, st *State) (string, error) {
	i := strings.LastIndex(ref, ".")
	if i < 0 {
		return "", fmt.Errorf("want <package>.<label>")
	}
	pname, label := ref[:i], ref[i+1:]
	for path, cf := range vc.prog.Contracts {
		sp := vc.prog.SSAPkgs[path]
		if sp == nil || sp.Pkg.Name() != pname {
			continue
		}
		fc := cf.Funcs["init"]
		if fc == nil {
			continue
		}
		for _, en := range fc.Ensures {
			if en.Label != label {
				continue
			}
			none := func(string) (Val, bool) { return Val{}, false }
			ctx := &SpecCtx{vc: vc, lookup: none, st: st, oldSt: st, oldLookup: none, pkg: sp.Pkg, fnName: "init"}
			return ctx.EvalBool(en.E)
		}
	}
	return "", fmt.Errorf("no init contract clause %s", ref)
}
