#!/usr/bin/env python3
"""addfn.py Cxx pkg name [pkg name ...] : add functions to props/Cxx.json (and the package to its package list)"""
import json, sys
pid = sys.argv[1]; p = '/verif/props/%s.json' % pid; d = json.load(open(p))
args = sys.argv[2:]
for i in range(0, len(args), 2):
    pkg, name = args[i], args[i+1]
    if not any(f['pkg'] == pkg and f['name'] == name for f in d['functions']):
        d['functions'].append({'pkg': pkg, 'name': name})
    if pkg not in d['packages']:
        d['packages'].append(pkg)
json.dump(d, open(p, 'w'), indent=1)
print(pid, len(d['functions']), 'functions')
