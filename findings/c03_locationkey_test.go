package profile

import "testing"

// Demonstration for profile.Location.key#loop1.inv.2.step (pre-fix code): the key slots of
// inline line i were written at 2i, 2i+1, 2i+2 in an array of 3n slots, so the column of
// every non-last line was overwritten by the next line's function id.
func TestVerifFindingLocationKeyColumn(t *testing.T) {
	f1, f2 := &Function{ID: 1, Name: "f1"}, &Function{ID: 2, Name: "f2"}
	m := &Mapping{ID: 1, Start: 0x1000, Limit: 0x2000}
	l1 := &Location{ID: 1, Mapping: m, Address: 0x1100, Line: []Line{{Function: f1, Line: 10, Column: 7}, {Function: f2, Line: 20, Column: 1}}}
	l2 := &Location{ID: 2, Mapping: m, Address: 0x1100, Line: []Line{{Function: f1, Line: 10, Column: 9}, {Function: f2, Line: 20, Column: 1}}}
	if l1.key() == l2.key() {
		t.Errorf("VERIF-FINDING: locations differing in Line[0].Column (7 vs 9) have the same merge key %v", l1.key())
	}
	p := &Profile{
		SampleType: []*ValueType{{Type: "s", Unit: "c"}}, PeriodType: &ValueType{Type: "s", Unit: "c"},
		Sample:   []*Sample{{Location: []*Location{l1}, Value: []int64{1}}, {Location: []*Location{l2}, Value: []int64{10}}},
		Location: []*Location{l1, l2}, Function: []*Function{f1, f2}, Mapping: []*Mapping{m},
	}
	merged, err := Merge([]*Profile{p})
	if err != nil {
		t.Fatal(err)
	}
	if len(merged.Sample) != 2 {
		t.Errorf("VERIF-FINDING: two distinct stacks merged into %d sample(s) with values %v", len(merged.Sample), merged.Sample[0].Value)
	}
}
