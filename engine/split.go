package main

// Case splitting of universally quantified goals: forall q: ... q < U ... => P is proved by
// proving it for q < U-1 and for q == U-1 separately (the typical "old elements / new element"
// split of a loop-invariant step). Sound: the two cases are exhaustive for integers below U.

import (
	"fmt"
	"strings"
)

type sx struct {
	atom string
	list []*sx
}

func parseSx(t string) (*sx, bool) {
	pos := 0
	var rd func() (*sx, bool)
	rd = func() (*sx, bool) {
		for pos < len(t) && (t[pos] == ' ' || t[pos] == '\n' || t[pos] == '\t') {
			pos++
		}
		if pos >= len(t) {
			return nil, false
		}
		if t[pos] == '(' {
			pos++
			n := &sx{}
			for {
				for pos < len(t) && (t[pos] == ' ' || t[pos] == '\n' || t[pos] == '\t') {
					pos++
				}
				if pos >= len(t) {
					return nil, false
				}
				if t[pos] == ')' {
					pos++
					return n, true
				}
				c, ok := rd()
				if !ok {
					return nil, false
				}
				n.list = append(n.list, c)
			}
		}
		if t[pos] == '|' {
			j := strings.IndexByte(t[pos+1:], '|')
			if j < 0 {
				return nil, false
			}
			a := t[pos : pos+j+2]
			pos += j + 2
			return &sx{atom: a}, true
		}
		j := pos
		for j < len(t) && t[j] != ' ' && t[j] != '\n' && t[j] != '\t' && t[j] != '(' && t[j] != ')' {
			j++
		}
		a := t[pos:j]
		pos = j
		return &sx{atom: a}, true
	}
	n, ok := rd()
	return n, ok
}

func (s *sx) String() string {
	if s.list == nil && s.atom != "" {
		return s.atom
	}
	var ps []string
	for _, c := range s.list {
		ps = append(ps, c.String())
	}
	return "(" + strings.Join(ps, " ") + ")"
}

func (s *sx) head() string {
	if len(s.list) > 0 && s.list[0].list == nil {
		return s.list[0].atom
	}
	return ""
}

// splitQueries returns the case queries for obligation o, or nil if the goal has no suitable shape.
func splitQueries(o *Obligation) []string {
	g, ok := parseSx(o.Goal)
	if !ok || g.head() != "forall" || len(g.list) != 3 {
		return nil
	}
	var decls []string
	var vars []string
	for _, b := range g.list[1].list {
		if len(b.list) != 2 {
			return nil
		}
		decls = append(decls, fmt.Sprintf("(declare-const %s %s)", b.list[0].String(), b.list[1].String()))
		vars = append(vars, b.list[0].String())
	}
	body := g.list[2]
	if body.head() == "!" {
		body = body.list[1]
	}
	if body.head() != "=>" || len(body.list) != 3 {
		return nil
	}
	// find an upper bound (< q U) of the first integer variable among the guard's conjuncts
	var bound, qv string
	var walk func(n *sx)
	walk = func(n *sx) {
		if bound != "" {
			return
		}
		if n.head() == "and" {
			for _, c := range n.list[1:] {
				walk(c)
			}
			return
		}
		if n.head() == "<" && len(n.list) == 3 {
			for _, v := range vars {
				if n.list[1].String() == v && !strings.Contains(n.list[2].String(), v) {
					bound, qv = n.list[2].String(), v
					return
				}
			}
		}
	}
	walk(body.list[1])
	if bound == "" {
		return nil
	}
	q := o.Query
	i := strings.LastIndex(q, "(assert (not (=> ")
	if i < 0 {
		return nil
	}
	pre := q[:i]
	base := pre + strings.Join(decls, "\n") + "\n" + fmt.Sprintf("(assert %s)\n(assert (not %s))\n", o.Path, body.String())
	return []string{
		base + fmt.Sprintf("(assert (< %s (- %s 1)))\n(check-sat)\n", qv, bound),
		base + fmt.Sprintf("(assert (= %s (- %s 1)))\n(check-sat)\n", qv, bound),
	}
}
