package driver

import (
	"fmt"
	"testing"

	"github.com/google/pprof/internal/plugin"
	"github.com/google/pprof/profile"
)

type verifNoObj struct{}

func (verifNoObj) Open(file string, start, limit, offset uint64, relocationSymbol string) (plugin.ObjFile, error) {
	return nil, fmt.Errorf("no such file")
}
func (verifNoObj) Disasm(file string, start, end uint64, intelSyntax bool) ([]plugin.Inst, error) {
	return nil, fmt.Errorf("unsupported")
}

type verifQuietUI struct{ plugin.UI }

func (verifQuietUI) PrintErr(args ...interface{}) {}
func (verifQuietUI) Print(args ...interface{})    {}

// Demonstration for driver.locateBinaries#safety.slice.b13.3 (pre-fix code): a mapping whose
// build id has a single character makes m.BuildID[:2] panic.
func TestVerifFindingBuildIDOneChar(t *testing.T) {
	defer func() {
		if r := recover(); r != nil {
			t.Errorf("VERIF-FINDING: locateBinaries panicked on a one-character build id: %v", r)
		}
	}()
	p := &profile.Profile{Mapping: []*profile.Mapping{{ID: 1, Start: 0x1000, Limit: 0x2000, File: "/bin/x", BuildID: "a"}}}
	locateBinaries(p, &source{}, verifNoObj{}, verifQuietUI{})
}

// Demonstration for driver.parseTagFilterRange#safety.panic (pre-fix code): a digit string beyond
// int64 matches the range syntax, strconv.ParseInt fails with a range error, and the function panics.
func TestVerifFindingTagRangeOverflow(t *testing.T) {
	for _, in := range []string{"99999999999999999999", "1:99999999999999999999kb", "99999999999999999999mb:"} {
		func() {
			defer func() {
				if r := recover(); r != nil {
					t.Errorf("VERIF-FINDING: parseTagFilterRange(%q) panicked: %v", in, r)
				}
			}()
			parseTagFilterRange(in)
		}()
	}
}
