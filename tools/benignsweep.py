#!/usr/bin/env python3
"""benignsweep.py [patch files...]: run EVERY claimed property's quick check whose packages are touched by a
behaviour-preserving patch (default: selftest/mutants/*-benign-agent-*.patch) against a scratch worktree of /repo with the
patch applied, and report which checks alarm. Result: benign/cross_results.json. /repo is not touched."""
import json, os, subprocess, sys, glob, tempfile, shutil, concurrent.futures
ENV = dict(os.environ, GOFLAGS='-mod=mod', GOPROXY='off', GOSUMDB='off', GOTOOLCHAIN='local')
def sh(cmd, cwd=None, env=ENV, timeout=1800):
    p = subprocess.run(cmd, shell=True, cwd=cwd, env=env, capture_output=True, text=True, timeout=timeout)
    return p.returncode, p.stdout + p.stderr
patches = sys.argv[1:] or sorted(glob.glob('/verif/selftest/mutants/*-benign-agent-*.patch'))
props = [c['property_id'] for c in json.load(open('/verif/MANIFEST.json'))['checks']]
home = tempfile.mkdtemp(prefix='bsweephome-', dir='/tmp')
os.makedirs(home + '/bin'); shutil.copy('/verif/bin/pverif', home + '/bin/pverif')
shutil.copytree('/verif/props', home + '/props'); shutil.copy('/verif/known_findings.json', home + '/known_findings.json')
def one(pf):
    wt = tempfile.mkdtemp(prefix='bsweep-', dir='/tmp'); os.rmdir(wt)
    rc, out = sh(f'git -C /repo worktree add --detach {wt} HEAD'); assert rc == 0, out
    res = {}
    try:
        rc, out = sh(f'git apply {pf}', cwd=wt)
        if rc != 0:
            return pf, {'_error': 'does not apply'}
        touched = {os.path.dirname(l[6:].strip()) for l in open(pf) if l.startswith('+++ b/')}
        for p in props:
            pk = set(json.load(open(f'{home}/props/{p}.json')).get('packages', []))
            if not (pk & touched):
                continue
            scratch = tempfile.mkdtemp(prefix='bsweepout-', dir='/tmp')
            rc, out = sh(f'{home}/bin/pverif check {p} --tier quick', cwd=home, env=dict(ENV, PVERIF_REPO=wt, PVERIF_OUT=scratch, PVERIF_HOME=home))
            shutil.rmtree(scratch, ignore_errors=True)
            viol = [l[l.find('obligation='):][:200] for l in out.splitlines() if l.startswith('VIOLATION')]
            res[p] = viol[:3] if (rc != 0 or viol) else []
    finally:
        sh(f'git -C /repo worktree remove --force {wt}'); shutil.rmtree(wt, ignore_errors=True)
    return pf, res
allres = {}
with concurrent.futures.ThreadPoolExecutor(max_workers=3) as ex:
    for pf, res in ex.map(one, patches):
        allres[os.path.basename(pf)] = res
        al = {k: v for k, v in res.items() if v}
        print(os.path.basename(pf), 'checked', sorted(res), 'ALARMS' if al else 'quiet', al, flush=True)
shutil.rmtree(home, ignore_errors=True)
json.dump(allres, open('/verif/benign/cross_results.json', 'w'), indent=1)
