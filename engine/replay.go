package main

// Replay of solver models against the real code (go test -overlay).

type ReplayResult struct {
	Outcome string `json:"outcome"` // reproduced, not-reproduced, skipped, error
	Detail  string `json:"detail"`
	Test    string `json:"test,omitempty"`
	Output  string `json:"output,omitempty"`
}

func tryReplay(r *checkRun, o *Obligation, model string) *ReplayResult {
	return &ReplayResult{Outcome: "skipped", Detail: "replay harness not available for this obligation kind"}
}

func cmdReplay(args []string) int { return 2 }
