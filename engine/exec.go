package main

// Execution (symbolic, passive) of SSA instructions inside a node.

import (
	"fmt"
	"go/token"
	"go/types"
	"sort"
	"strings"

	"golang.org/x/tools/go/ssa"
)

func (vc *VC) safety(fr *frame, n *Node, label, text string, p token.Pos, goal string) {
	if goal == "true" || (vc.noSafety && !(fr == vc.top && vc.safetyKinds[label])) {
		return
	}
	lbl := fmt.Sprintf("safety.%s.b%d", label, n.blk.Index)
	if fr != vc.top {
		lbl = fmt.Sprintf("safety.%s.%s.b%d", label, fr.fn.Name(), n.blk.Index)
	}
	o := vc.oblige("safety", lbl, text, vc.pos(p), n.reach, goal)
	_ = o
	// after the check the property may be assumed (the program would have panicked otherwise)
	vc.assume(implies(n.reach, goal))
}

func (vc *VC) bind(n *Node, v ssa.Value, t string) Val {
	val := Val{T: t, Typ: v.Type()}
	n.env[v] = val
	return val
}

func (vc *VC) defVal(n *Node, v ssa.Value, term string) Val {
	name := vc.def(v.Name(), vc.enc.sortOf(v.Type()), term)
	return vc.bind(n, v, name)
}

func (vc *VC) havocVal(n *Node, v ssa.Value, st *State) Val {
	name := vc.decl(v.Name(), vc.enc.sortOf(v.Type()))
	vc.assume(vc.enc.wellFormed(name, v.Type(), st.wm))
	return vc.bind(n, v, name)
}

func (vc *VC) execNode(fr *frame, n *Node) {
	e := vc.enc
	if n.unwind {
		// reaching this node means the unroll bound was too small
		if (fr.fc != nil && fr.fc.Bounded > 0) || forceBounded > 0 {
			vc.assume(not(n.reach))
			vc.enc.notes[fmt.Sprintf("bounded(%d): loops of %s unrolled %d times, longer executions assumed away", fr.fc.Bounded, fr.fn.Name(), fr.fc.Bounded)] = true
		} else {
			vc.oblige("unwind", fmt.Sprintf("unwind.b%d", n.blk.Index), "unrolling bound suffices (unwinding assertion)", vc.pos(n.blk.Instrs[0].Pos()), n.reach, "false")
		}
		return
	}
	instrs := n.blk.Instrs
	i := 0
	// phis
	var phis []*ssa.Phi
	for ; i < len(instrs); i++ {
		phi, ok := instrs[i].(*ssa.Phi)
		if !ok {
			break
		}
		phis = append(phis, phi)
	}
	var in []*Edge
	for _, ed := range n.preds {
		if !ed.back && ed.cond != "false" {
			in = append(in, ed)
		}
	}
	entryVals := map[*ssa.Phi]Val{}
	for _, phi := range phis {
		var term string
		for k := len(in) - 1; k >= 0; k-- {
			ed := in[k]
			v := vc.value(fr, ed.from, phi.Edges[ed.predIdx])
			if term == "" {
				term = v.T
			} else if v.T != term {
				term = fmt.Sprintf("(ite %s %s %s)", ed.cond, v.T, term)
			}
		}
		if term == "" {
			term = e.zero(phi.Type())
		}
		entryVals[phi] = Val{T: term, Typ: phi.Type()}
	}
	if n.loop != nil {
		vc.loopHeader(fr, n, phis, entryVals)
	} else {
		for _, phi := range phis {
			vc.defVal(n, phi, entryVals[phi].T)
		}
	}
	for ; i < len(instrs); i++ {
		if !vc.execInstr(fr, n, instrs[i]) {
			return
		}
	}
}

// loopHeader: check invariants on entry, havoc, assume invariants.
func (vc *VC) loopHeader(fr *frame, n *Node, phis []*ssa.Phi, entryVals map[*ssa.Phi]Val) {
	l := n.loop
	e := vc.enc
	lc := l.contract
	pos := vc.pos(firstPos(l.header))
	if fr.loopPre == nil {
		fr.loopPre = map[int]*State{}
	}
	fr.loopPre[l.ordinal] = n.st.clone()
	l.entryVals = entryVals
	// 1. entry obligations
	if lc != nil {
		for k, inv := range lc.Invariants {
			t, err := vc.evalLoopClause(fr, l, n, entryVals, n.st, inv.E)
			if err != nil {
				vc.errorf("%s loop %d invariant %q: %v", fr.fn.Name(), l.ordinal, inv.Text, err)
				continue
			}
			vc.oblige("invariant-entry", fmt.Sprintf("loop%d.inv%s.entry", l.ordinal, labelOr(inv.Label, k)), inv.Text, pos, n.reach, t)
		}
	}
	// 2. havoc
	mods := vc.loopModSet(fr, l)
	preSt := n.st.clone()
	if fr == vc.top {
		defer func() { n.st.mem[fmt.Sprintf("calledloop.%d", l.ordinal)] = "true" }()
	}
	if mods.allocates || mods.all {
		wm := vc.decl("wm.h", "Int")
		vc.assume(fmt.Sprintf("(>= %s %s)", wm, preSt.wm))
		n.st.wm = wm
	}
	if mods.all {
		// ghost call flags keep the value they had before the loop (calls inside the loop body are then not seen
		// after it: sound for must-call obligations, which need the flag to be true)
		ghosts := map[string]string{}
		for k, v := range n.st.mem {
			if strings.HasPrefix(k, "called") {
				ghosts[k] = v
			}
		}
		n.st.mem = map[string]string{}
		for k, v := range ghosts {
			n.st.mem[k] = v
		}
		for b := range l.blocks {
			for _, in := range b.Instrs {
				if nx, ok := in.(*ssa.Next); ok && !nx.IsString {
					if rg, ok := nx.Iter.(*ssa.Range); ok {
						if g := vc.rangeGhosts[rg]; g != nil {
							n.st.mem[g.name] = vc.decl(g.name+".h", e.mapMemSorts[g.name])
						}
					}
				}
			}
		}
		n.st.epoch = vc.newEpoch("havoc", nil, nil)
		n.st.epoch.wm = n.st.wm
		vc.enc.notes[fmt.Sprintf("loop %d of %s calls functions with unknown effects: all memories havoced at the header", l.ordinal, fr.fn.Name())] = true
	} else {
		for _, m := range mods.memNames(vc) {
			t := e.mems[m]
			n.st.mem[m] = vc.decl(m+".h", vc.memSortByName(m, t))
			if wf := vc.memWF(m, n.st.mem[m], n.st.wm); wf != "" {
				vc.emit(strings.TrimSpace(wf))
			}
		}
		vc.havocFresh(n.st, preSt, mods)
	}
	// visited-set ghosts of range-over-map statements iterated inside this loop are loop-carried state
	if !mods.all {
		for b := range l.blocks {
			for _, in := range b.Instrs {
				if nx, ok := in.(*ssa.Next); ok && !nx.IsString {
					if rg, ok := nx.Iter.(*ssa.Range); ok {
						if g := vc.rangeGhosts[rg]; g != nil {
							n.st.mem[g.name] = vc.decl(g.name+".h", e.mapMemSorts[g.name])
						}
					}
				}
			}
		}
	}
	hv := map[*ssa.Phi]Val{}
	for _, phi := range phis {
		v := vc.havocVal(n, phi, n.st)
		hv[phi] = v
	}
	// automatic invariant of range loops: the hidden index starts at -1 and only increments
	// (entry value is the constant -1 and every back edge passes index+1: checked structurally)
	for _, phi := range phis {
		if phi.Comment == "rangeindex" && rangeIndexShape(phi) {
			vc.assume(implies(n.reach, fmt.Sprintf("(>= %s (- 1))", hv[phi].T)))
		}
	}
	// 3. assume invariants
	if lc != nil {
		for _, inv := range lc.Invariants {
			t, err := vc.evalLoopClause(fr, l, n, hv, n.st, inv.E)
			if err != nil {
				continue
			}
			vc.assume(implies(n.reach, t))
		}
	} else {
		vc.enc.notes[fmt.Sprintf("loop %d of %s has no invariant (havoc only)", l.ordinal, fr.fn.Name())] = true
	}
	_ = preSt
	l.entryVals = entryVals
	if lc != nil {
		for i := range lc.MustCalls {
			name := mustFlag(l, i)
			if e.mapMemSorts == nil {
				e.mapMemSorts = map[string]string{}
			}
			e.mapMemSorts[name] = "Bool"
			n.st.mem[name] = "false"
		}
	}
	l.hdrSt = n.st.clone()
	l.hdrVals = hv
}

func mustFlag(l *LoopInfo, i int) string { return fmt.Sprintf("called.%d.%d", l.ordinal, i) }

// mustCallMark: a call of callee happens at node n; every enclosing loop with a mustcall clause for it records
// whether the arguments satisfy the clause's condition.
func (vc *VC) mustCallMark(fr *frame, n *Node, x *ssa.Call, callee string, args []Val) {
	if fr.fc != nil {
		for i, mc := range fr.fc.MustCalls {
			if mc.Callee != callee {
				continue
			}
			ctx := &SpecCtx{vc: vc, lookup: vc.nodeLookup(fr, n, x, args), st: n.st, oldSt: fr.entrySt, oldLookup: func(name string) (Val, bool) { return vc.paramLookup(fr, name) }, pkg: fr.fn.Pkg.Pkg, fnName: fr.fn.Name(), fr: fr}
			t, err := ctx.EvalBool(mc.ArgCond)
			if err != nil {
				// the argument condition mentions a variable that is not in scope at this call: this call is not a
				// match; a clause whose condition can be evaluated at no call at all is stale (Hits stays 0)
				vc.enc.notes[fmt.Sprintf("mustcall clause %q does not apply to the call of %s at %s (%v)", truncate(mc.Text, 40), callee, vc.pos(x.Pos()), err)] = true
				continue
			}
			mc.Hits++
			name := fmt.Sprintf("calledfn.%d", i)
			cur := vc.memAtByName(n.st, name)
			n.st.mem[name] = vc.def(name, "Bool", or(cur, t))
		}
	}
	for l := fr.innermostLoop(n.blk); l != nil; l = l.parent {
		if l.contract == nil {
			continue
		}
		for i, mc := range l.contract.MustCalls {
			if mc.Callee != callee {
				continue
			}
			ctx := &SpecCtx{vc: vc, lookup: vc.nodeLookup(fr, n, x, args), st: n.st, oldSt: fr.entrySt, oldLookup: func(name string) (Val, bool) { return vc.paramLookup(fr, name) }, pkg: fr.fn.Pkg.Pkg, fnName: fr.fn.Name(), fr: fr, loop: l}
			t, err := ctx.EvalBool(mc.ArgCond)
			if err != nil {
				// the argument condition mentions a variable that is not in scope at this call: this call is not a
				// match; a clause whose condition can be evaluated at no call at all is stale (Hits stays 0)
				vc.enc.notes[fmt.Sprintf("mustcall clause %q does not apply to the call of %s at %s (%v)", truncate(mc.Text, 40), callee, vc.pos(x.Pos()), err)] = true
				continue
			}
			mc.Hits++
			name := mustFlag(l, i)
			cur := vc.memAtByName(n.st, name)
			n.st.mem[name] = vc.def(name, "Bool", or(cur, t))
		}
	}
}

// rangeIndexShape: phi [-1, t, t, ...] where t = phi + 1.
func rangeIndexShape(phi *ssa.Phi) bool {
	seenInit := false
	for _, e := range phi.Edges {
		if c, ok := e.(*ssa.Const); ok {
			if c.Value != nil && c.Int64() == -1 {
				seenInit = true
				continue
			}
			return false
		}
		b, ok := e.(*ssa.BinOp)
		if !ok || b.Op != token.ADD || b.X != phi {
			return false
		}
		c, ok := b.Y.(*ssa.Const)
		if !ok || c.Value == nil || c.Int64() != 1 {
			return false
		}
	}
	return seenInit
}

func labelOr(label string, k int) string {
	if label != "" {
		return "." + label
	}
	return fmt.Sprintf(".%d", k+1)
}

func firstPos(b *ssa.BasicBlock) token.Pos {
	for _, in := range b.Instrs {
		if in.Pos().IsValid() {
			return in.Pos()
		}
	}
	return token.NoPos
}

// backEdge: invariant preservation and termination obligations.
func (vc *VC) backEdge(fr *frame, ed *Edge) {
	l := ed.to.loop
	if l == nil {
		return
	}
	lc := l.contract
	if lc == nil {
		return
	}
	hdr := ed.to
	var phis []*ssa.Phi
	for _, in := range l.header.Instrs {
		if phi, ok := in.(*ssa.Phi); ok {
			phis = append(phis, phi)
		} else {
			break
		}
	}
	vals := map[*ssa.Phi]Val{}
	for _, phi := range phis {
		vals[phi] = vc.value(fr, ed.from, phi.Edges[ed.predIdx])
	}
	pos := vc.pos(firstPos(l.header))
	for k, inv := range lc.Invariants {
		t, err := vc.evalLoopClauseAt(fr, l, hdr, ed.from, vals, ed.from.st, inv.E)
		if err != nil {
			vc.errorf("%s loop %d invariant %q: %v", fr.fn.Name(), l.ordinal, inv.Text, err)
			continue
		}
		vc.oblige("invariant-step", fmt.Sprintf("loop%d.inv%s.step.b%d", l.ordinal, labelOr(inv.Label, k), ed.from.blk.Index), inv.Text, pos, ed.cond, t)
	}
	// names at the end of the iteration: a loop-carried variable has the value that flows along this back edge
	endLookup := func(name string) (Val, bool) {
		for phi, v := range vals {
			if phi.Comment == name {
				return v, true
			}
		}
		return vc.nodeLookup(fr, ed.from, nil, nil)(name)
	}
	for k, sc := range lc.Steps {
		ctx := &SpecCtx{vc: vc, lookup: endLookup, st: ed.from.st, oldSt: fr.entrySt, oldLookup: func(name string) (Val, bool) { return vc.paramLookup(fr, name) }, pkg: fr.fn.Pkg.Pkg, fnName: fr.fn.Name(), fr: fr, loop: l}
		t, err := ctx.EvalBool(sc.E)
		if err != nil {
			sc.Skipped++
			vc.enc.notes[fmt.Sprintf("loop %d of %s: step clause %q does not apply to the back edge from block %d (%v)", l.ordinal, fr.fn.Name(), truncate(sc.Text, 40), ed.from.blk.Index, err)] = true
			continue
		}
		sc.Applied++
		vc.oblige("step", fmt.Sprintf("loop%d.step%s.b%d", l.ordinal, labelOr(sc.Label, k), ed.from.blk.Index), sc.Text, pos, ed.cond, t)
	}
	for i, mc := range lc.MustCalls {
		ctx := &SpecCtx{vc: vc, lookup: endLookup, st: ed.from.st, oldSt: fr.entrySt, oldLookup: func(name string) (Val, bool) { return vc.paramLookup(fr, name) }, pkg: fr.fn.Pkg.Pkg, fnName: fr.fn.Name(), fr: fr, loop: l}
		w, err := ctx.EvalBool(mc.When)
		if err != nil {
			// a variable of the condition is not declared yet on this path (e.g. an early `continue`): the clause
			// does not apply to this edge; it is an error only if it applies to no edge at all (checked after the body)
			mc.Skipped++
			vc.enc.notes[fmt.Sprintf("loop %d of %s: mustcall %s does not apply to the back edge from block %d (%v)", l.ordinal, fr.fn.Name(), mc.Callee, ed.from.blk.Index, err)] = true
			continue
		}
		mc.Applied++
		flag := vc.memAtByName(ed.from.st, mustFlag(l, i))
		vc.oblige("mustcall", fmt.Sprintf("loop%d.mustcall%s.b%d", l.ordinal, labelOr(mc.Label, i), ed.from.blk.Index), "mustcall "+mc.Callee+" "+mc.Text, pos, ed.cond, implies(w, flag))
	}
	if lc.Decreases != nil {
		// value at header (havoced phis) vs value after the iteration
		hv := map[*ssa.Phi]Val{}
		for _, phi := range phis {
			hv[phi] = hdr.env[phi]
		}
		d0, err0 := vc.evalLoopValAt(fr, l, hdr, hdr, hv, hdr.st, lc.Decreases.E)
		d1, err1 := vc.evalLoopValAt(fr, l, hdr, ed.from, vals, ed.from.st, lc.Decreases.E)
		if err0 != nil || err1 != nil {
			vc.errorf("%s loop %d decreases: %v %v", fr.fn.Name(), l.ordinal, err0, err1)
		} else {
			z := vc.enc.ilit(0)
			goal := and(vc.enc.sle(z, d0), vc.enc.slt(d1, d0))
			vc.oblige("decreases", fmt.Sprintf("loop%d.decreases.b%d", l.ordinal, ed.from.blk.Index), lc.Decreases.Text, pos, ed.cond, goal)
		}
	}
}

func (vc *VC) evalLoopClause(fr *frame, l *LoopInfo, hdr *Node, phiVals map[*ssa.Phi]Val, st *State, ex Expr) (string, error) {
	return vc.evalLoopClauseAt(fr, l, hdr, hdr, phiVals, st, ex)
}

func (vc *VC) loopCtx(fr *frame, l *LoopInfo, hdr, envNode *Node, phiVals map[*ssa.Phi]Val, st *State) *SpecCtx {
	lookup := func(name string) (Val, bool) {
		return vc.resolveAtHeader(fr, l, hdr, envNode, phiVals, st, name)
	}
	entryLookup := func(name string) (Val, bool) { return vc.paramLookup(fr, name) }
	ctx := &SpecCtx{vc: vc, lookup: lookup, st: st, oldSt: fr.entrySt, oldLookup: entryLookup, pkg: fr.fn.Pkg.Pkg, fnName: fr.fn.Name(), fr: fr, loop: l}
	for _, in := range l.header.Instrs {
		if nx, ok := in.(*ssa.Next); ok && !nx.IsString {
			if rg, ok := nx.Iter.(*ssa.Range); ok {
				ctx.vis = vc.rangeGhosts[rg]
			}
		}
	}
	return ctx
}

func (vc *VC) evalLoopClauseAt(fr *frame, l *LoopInfo, hdr, envNode *Node, phiVals map[*ssa.Phi]Val, st *State, ex Expr) (string, error) {
	return vc.loopCtx(fr, l, hdr, envNode, phiVals, st).EvalBool(ex)
}

func (vc *VC) evalLoopValAt(fr *frame, l *LoopInfo, hdr, envNode *Node, phiVals map[*ssa.Phi]Val, st *State, ex Expr) (string, error) {
	c := vc.loopCtx(fr, l, hdr, envNode, phiVals, st)
	v, err := c.EvalVal(ex)
	if err != nil {
		return "", err
	}
	if !isInteger(v.Typ) {
		return "", fmt.Errorf("decreases expression must be an integer")
	}
	return c.toInt(v), nil
}

func (vc *VC) paramLookup(fr *frame, name string) (Val, bool) {
	for i, p := range fr.fn.Params {
		if p.Name() == name {
			return fr.params[i], true
		}
	}
	for i, fv := range fr.fn.FreeVars {
		if fv.Name() == name && i < len(fr.freeVars) && fr.entrySt != nil {
			// free variables are pointers to the captured variable: a name in a contract denotes the
			// variable's value when the closure is entered
			if pt, ok := fv.Type().Underlying().(*types.Pointer); ok && isCellType(pt.Elem()) {
				return Val{T: fr.freeVars[i].T, Typ: pt.Elem(), Cell: true}, true
			}
		}
	}
	return Val{}, false
}

// resolveAtHeader resolves a source-level name at a loop header.
func (vc *VC) resolveAtHeader(fr *frame, l *LoopInfo, hdr, envNode *Node, phiVals map[*ssa.Phi]Val, st *State, name string) (Val, bool) {
	e := vc.enc
	// $i: completed iterations of a range loop
	if name == "$i" {
		for phi, v := range phiVals {
			if phi.Comment == "rangeindex" {
				one := e.ilit(1)
				return Val{T: e.add(v.T, one), Typ: phi.Type()}, true
			}
		}
		return Val{}, false
	}
	// $i<k>: completed iterations of the enclosing range loop with ordinal k
	if strings.HasPrefix(name, "$i") && len(name) > 2 {
		var k int
		if _, err := fmt.Sscanf(name[2:], "%d", &k); err == nil {
			for _, ol := range fr.loops {
				if ol.ordinal != k {
					continue
				}
				for _, in := range ol.header.Instrs {
					phi, ok := in.(*ssa.Phi)
					if !ok {
						break
					}
					if phi.Comment == "rangeindex" {
						if ol == l {
							if v, ok := phiVals[phi]; ok {
								return Val{T: e.add(v.T, "1"), Typ: phi.Type()}, true
							}
						}
						if v, ok := envNode.env[phi]; ok {
							return Val{T: e.add(v.T, "1"), Typ: phi.Type()}, true
						}
					}
				}
			}
		}
		return Val{}, false
	}
	// phi by source name at this header
	for phi, v := range phiVals {
		if phi.Comment == name {
			return v, true
		}
	}
	// evaluator for values under the phi substitution
	var evalUnder func(v ssa.Value, depth int) (Val, bool)
	evalUnder = func(v ssa.Value, depth int) (Val, bool) {
		if depth > 8 {
			return Val{}, false
		}
		switch x := v.(type) {
		case *ssa.Const:
			return vc.constVal(x), true
		case *ssa.Parameter:
			if val, ok := envNode.env[x]; ok {
				return val, true
			}
		case *ssa.Phi:
			if val, ok := phiVals[x]; ok {
				return val, true
			}
		}
		// defined in the header block by a pure instruction?
		if in, ok := v.(ssa.Instruction); ok && in.Block() == l.header {
			switch x := v.(type) {
			case *ssa.BinOp:
				a, ok1 := evalUnder(x.X, depth+1)
				b, ok2 := evalUnder(x.Y, depth+1)
				if ok1 && ok2 {
					t, err := e.binop(x.Op, a.T, b.T, x.X.Type(), x.Y.Type())
					if err == nil {
						return Val{T: t, Typ: x.Type()}, true
					}
				}
			case *ssa.Convert:
				a, ok1 := evalUnder(x.X, depth+1)
				if ok1 {
					t, err := e.convert(a.T, x.X.Type(), x.Type())
					if err == nil {
						return Val{T: t, Typ: x.Type()}, true
					}
				}
			case *ssa.ChangeType:
				a, ok1 := evalUnder(x.X, depth+1)
				if ok1 {
					return Val{T: a.T, Typ: x.Type()}, true
				}
			case *ssa.Call:
				if b, ok := x.Call.Value.(*ssa.Builtin); ok && b.Name() == "len" {
					a, ok1 := evalUnder(x.Call.Args[0], depth+1)
					if ok1 {
						if _, isSl := a.Typ.Underlying().(*types.Slice); isSl {
							return Val{T: sLen(a.T), Typ: x.Type()}, true
						}
						if isString(a.Typ) {
							return Val{T: fmt.Sprintf("(strlen %s)", a.T), Typ: x.Type()}, true
						}
					}
				}
			}
			return Val{}, false
		}
		if val, ok := envNode.env[v]; ok {
			return val, true
		}
		return Val{}, false
	}
	// a local that lives in memory (an Alloc named after the variable, allocated before the loop): the name denotes
	// the current content of the cell, not the value of some earlier definition
	if v, ok := vc.allocLocal(fr, envNode, l.header, st, name); ok {
		return v, true
	}
	// candidates via DebugRefs of objects with this name
	type cand struct {
		dr *ssa.DebugRef
	}
	var best *ssa.DebugRef
	for obj, drs := range fr.dbg.byObj {
		if obj.Name() != name {
			continue
		}
		for _, dr := range drs {
			var defBlock *ssa.BasicBlock
			if in, ok := dr.X.(ssa.Instruction); ok {
				defBlock = in.Block()
			}
			if defBlock != nil && !(defBlock == l.header || defBlock.Dominates(l.header)) {
				continue
			}
			if defBlock != nil && defBlock != l.header && l.blocks[defBlock] {
				continue
			}
			if _, ok := evalUnder(dr.X, 0); !ok {
				continue
			}
			if best == nil {
				best = dr
				continue
			}
			// prefer the definition dominated by the other (the later one)
			bb := blockOf(best.X)
			cb := blockOf(dr.X)
			if bb == nil || (cb != nil && bb != cb && bb.Dominates(cb)) || (cb != nil && bb == cb && instrIndex(dr.X) > instrIndex(best.X)) {
				best = dr
			}
		}
	}
	if best != nil {
		v, _ := evalUnder(best.X, 0)
		if best.IsAddr {
			pt, ok := v.Typ.Underlying().(*types.Pointer)
			if !ok {
				return Val{}, false
			}
			return Val{T: vc.load(st, v.T, pt.Elem()), Typ: pt.Elem()}, true
		}
		return v, true
	}
	if v, ok := vc.paramLookup(fr, name); ok {
		return v, true
	}
	return Val{}, false
}

// allocLocal: the variable `name` is kept in a cell (ssa.Alloc with that comment) whose allocation dominates block b
// and is bound at node n: its current content in state st. The innermost (latest dominating) cell wins.
func (vc *VC) allocLocal(fr *frame, n *Node, b *ssa.BasicBlock, st *State, name string) (Val, bool) {
	var best *ssa.Alloc
	for _, blk := range fr.fn.Blocks {
		if !(blk == b || blk.Dominates(b)) {
			continue
		}
		for _, in := range blk.Instrs {
			a, ok := in.(*ssa.Alloc)
			if !ok || a.Comment != name {
				continue
			}
			if _, bound := n.env[a]; !bound {
				continue
			}
			if best == nil || best.Block().Dominates(a.Block()) {
				best = a
			}
		}
	}
	if best == nil {
		return Val{}, false
	}
	elem := best.Type().Underlying().(*types.Pointer).Elem()
	if isCellType(elem) {
		// evaluated lazily in whatever state the clause (or an enclosing old()/atiter()) selects
		return Val{T: n.env[best].T, Typ: elem, Cell: true}, true
	}
	if _, isStruct := elem.Underlying().(*types.Struct); isStruct {
		// a struct kept in memory: its current content (all fields), loaded from the state the clause selects
		return Val{T: n.env[best].T, Typ: elem, Cell: true}, true
	}
	return Val{}, false
}

func blockOf(v ssa.Value) *ssa.BasicBlock {
	if in, ok := v.(ssa.Instruction); ok {
		return in.Block()
	}
	return nil
}

func instrIndex(v ssa.Value) int {
	in, ok := v.(ssa.Instruction)
	if !ok || in.Block() == nil {
		return -1
	}
	for i, x := range in.Block().Instrs {
		if x == in {
			return i
		}
	}
	return -1
}

// execInstr returns false when the node ends (terminator).
func (vc *VC) execInstr(fr *frame, n *Node, in ssa.Instruction) bool {
	e := vc.enc
	st := n.st
	val := func(v ssa.Value) Val { return vc.value(fr, n, v) }
	switch x := in.(type) {
	case *ssa.DebugRef:
		return true
	case *ssa.Alloc:
		obj := vc.def("obj."+x.Name(), "Int", fmt.Sprintf("(+ %s 1)", st.wm))
		st.wm = obj
		p := mkPtr(obj, e.ilit(0), "0")
		elem := x.Type().Underlying().(*types.Pointer).Elem()
		vc.zeroInit(st, p, elem)
		vc.bind(n, x, p)
	case *ssa.BinOp:
		a, b := val(x.X), val(x.Y)
		if x.Op == token.QUO || x.Op == token.REM {
			if isInteger(x.X.Type()) {
				vc.safety(fr, n, "div", "divisor is non-zero", x.Pos(), not(fmt.Sprintf("(= %s %s)", b.T, e.zero(x.Y.Type()))))
			}
		}
		if (x.Op == token.SHL || x.Op == token.SHR) && !isUnsigned(x.Y.Type()) {
			if _, isConst := x.Y.(*ssa.Const); !isConst {
				w, _ := intWidth(x.Y.Type().Underlying().(*types.Basic))
				var nonneg string
				if e.isBV(x.Y.Type()) {
					nonneg = fmt.Sprintf("(bvsge %s (_ bv0 %d))", b.T, w)
				} else {
					nonneg = fmt.Sprintf("(>= %s 0)", b.T)
				}
				vc.safety(fr, n, "shift", "shift count is non-negative", x.Pos(), nonneg)
			}
		}
		t, err := e.binop(x.Op, a.T, b.T, x.X.Type(), x.Y.Type())
		if err != nil {
			vc.errorf("%s: %v", vc.pos(x.Pos()), err)
			vc.havocVal(n, x, st)
			return true
		}
		vc.defVal(n, x, t)
	case *ssa.UnOp:
		a := val(x.X)
		switch x.Op {
		case token.MUL: // load
			vc.nilCheck(fr, n, a.T, x.Pos())
			t := vc.loadM(st, a.Mem, a.T, x.Type())
			v := vc.defVal(n, x, t)
			vc.assume(implies(n.reach, e.wellFormed(v.T, x.Type(), st.wm)))
		case token.ARROW:
			vc.errorf("%s: channel receive unsupported", vc.pos(x.Pos()))
			vc.havocVal(n, x, st)
		default:
			t, err := e.unop(x.Op, a.T, x.X.Type())
			if err != nil {
				vc.errorf("%s: %v", vc.pos(x.Pos()), err)
				vc.havocVal(n, x, st)
				return true
			}
			vc.defVal(n, x, t)
		}
	case *ssa.Store:
		a, v := val(x.Addr), val(x.Val)
		vc.nilCheck(fr, n, a.T, x.Pos())
		elem := x.Addr.Type().Underlying().(*types.Pointer).Elem()
		vc.storeM(st, a.Mem, a.T, elem, v.T)
	case *ssa.FieldAddr:
		a := val(x.X)
		vc.nilCheck(fr, n, a.T, x.Pos())
		fv := vc.bind(n, x, e.fieldPtr(a.T, x.Field))
		stT := x.X.Type().Underlying().(*types.Pointer).Elem()
		if isCellType(stT.Underlying().(*types.Struct).Field(x.Field).Type()) {
			if fm := vc.prog.fieldMem(stT, x.Field); fm != "" {
				fv.Mem = e.memForField(stT, x.Field)
				n.env[x] = fv
			}
		}
	case *ssa.Field:
		a := val(x.X)
		s := e.structSort(x.X.Type())
		vc.defVal(n, x, fmt.Sprintf("(%s.%d %s)", s, x.Field, a.T))
	case *ssa.IndexAddr:
		a, i := val(x.X), val(x.Index)
		idx := vc.toI(i)
		switch u := x.X.Type().Underlying().(type) {
		case *types.Slice:
			vc.boundsCheck(fr, n, idx, sLen(a.T), x.Pos())
			vc.bind(n, x, e.elemPtr(a.T, idx))
		case *types.Pointer:
			at := u.Elem().Underlying().(*types.Array)
			vc.nilCheck(fr, n, a.T, x.Pos())
			vc.boundsCheck(fr, n, idx, e.ilit(at.Len()), x.Pos())
			vc.bind(n, x, mkPtr(pObj(a.T), idx, pFld(a.T)))
		default:
			vc.errorf("%s: IndexAddr on %s", vc.pos(x.Pos()), x.X.Type())
		}
	case *ssa.Index:
		a, i := val(x.X), val(x.Index)
		idx := vc.toI(i)
		switch u := x.X.Type().Underlying().(type) {
		case *types.Array:
			vc.boundsCheck(fr, n, idx, e.ilit(u.Len()), x.Pos())
			vc.defVal(n, x, fmt.Sprintf("(select %s %s)", a.T, idx))
		case *types.Basic: // string
			vc.boundsCheck(fr, n, idx, fmt.Sprintf("(strlen %s)", a.T), x.Pos())
			vc.defVal(n, x, e.uf("strat", []string{"Str", e.I()}, e.sortOf(types.Typ[types.Uint8]), a.T, idx))
		default:
			vc.errorf("%s: Index on %s", vc.pos(x.Pos()), x.X.Type())
			vc.havocVal(n, x, st)
		}
	case *ssa.Slice:
		vc.execSlice(fr, n, x)
	case *ssa.Phi:
		vc.errorf("phi in the middle of block")
	case *ssa.Convert:
		a := val(x.X)
		vc.execConvert(fr, n, x, a)
	case *ssa.ChangeType:
		a := val(x.X)
		if e.sortOf(x.X.Type()) != e.sortOf(x.Type()) {
			vc.errorf("%s: ChangeType between different sorts %s -> %s", vc.pos(x.Pos()), x.X.Type(), x.Type())
		}
		nv := vc.bind(n, x, a.T)
		_ = nv
		if c, ok := vc.clos[a.T]; ok {
			vc.clos[a.T] = c
		}
	case *ssa.ChangeInterface:
		vc.bind(n, x, val(x.X).T)
	case *ssa.MakeInterface:
		a := val(x.X)
		tag := e.typeTag(x.X.Type())
		box := vc.box(x.X.Type(), a.T)
		vc.defVal(n, x, fmt.Sprintf("(mk-iface %d %s)", tag, box))
	case *ssa.TypeAssert:
		vc.execTypeAssert(fr, n, x)
	case *ssa.Extract:
		t := val(x.Tuple)
		if x.Index < len(t.Elems) {
			n.env[x] = t.Elems[x.Index]
			if c, ok := vc.clos[t.Elems[x.Index].T]; ok {
				_ = c
			}
		} else {
			vc.errorf("%s: extract from non-tuple", vc.pos(x.Pos()))
			vc.havocVal(n, x, st)
		}
	case *ssa.MakeClosure:
		fn := x.Fn.(*ssa.Function)
		vc.seqCloID++
		name := vc.def("clo."+fn.Name(), "Int", fmt.Sprint(2000000+vc.seqCloID))
		var bs []Val
		for _, b := range x.Bindings {
			bs = append(bs, val(b))
		}
		vc.clos[name] = &closureVal{fn: fn, bindings: bs}
		vc.bind(n, x, name)
	case *ssa.MakeSlice:
		ln, cp := vc.toI(val(x.Len)), vc.toI(val(x.Cap))
		z := e.ilit(0)
		vc.safety(fr, n, "makeslice", "make: 0 <= len <= cap", x.Pos(), and(e.sle(z, ln), e.sle(ln, cp)))
		obj := vc.def("obj."+x.Name(), "Int", fmt.Sprintf("(+ %s 1)", st.wm))
		st.wm = obj
		elem := x.Type().Underlying().(*types.Slice).Elem()
		vc.zeroFill(st, obj, elem)
		vc.defVal(n, x, fmt.Sprintf("(mk-slice %s %s %s %s 0)", obj, z, ln, cp))
	case *ssa.MakeMap:
		obj := vc.def("obj."+x.Name(), "Int", fmt.Sprintf("(+ %s 1)", st.wm))
		st.wm = obj
		mt := x.Type().Underlying().(*types.Map)
		vc.mapInit(st, mt, obj)
		vc.bind(n, x, obj)
	case *ssa.MakeChan:
		obj := vc.def("obj."+x.Name(), "Int", fmt.Sprintf("(+ %s 1)", st.wm))
		st.wm = obj
		vc.bind(n, x, obj)
	case *ssa.Lookup:
		vc.execLookup(fr, n, x)
	case *ssa.MapUpdate:
		m, k, v := val(x.Map), val(x.Key), val(x.Value)
		mt := x.Map.Type().Underlying().(*types.Map)
		vc.safety(fr, n, "nilmap", "assignment to entry in nil map", x.Pos(), not(fmt.Sprintf("(= %s 0)", m.T)))
		vc.mapStore(st, mt, m.T, k.T, v.T)
	case *ssa.Range:
		a := val(x.X)
		// iterator: remember the ranged value
		n.env[x] = Val{T: a.T, Typ: x.X.Type()}
		if mt, ok := x.X.Type().Underlying().(*types.Map); ok {
			if vc.rangeGhosts == nil {
				vc.rangeGhosts = map[*ssa.Range]*rangeGhost{}
			}
			vc.nameCount["vis"]++
			g := &rangeGhost{name: fmt.Sprintf("vis.%s.%d", x.Name(), vc.nameCount["vis"]), mapT: a.T, mt: mt}
			ks := e.sortOf(mt.Key())
			e.mapMems(mt)
			e.mapMemSorts[g.name] = fmt.Sprintf("(Array %s Bool)", ks)
			st.mem[g.name] = fmt.Sprintf("((as const (Array %s Bool)) false)", ks)
			g.st = st.clone()
			vc.rangeGhosts[x] = g
		}
	case *ssa.Next:
		vc.execNext(fr, n, x)
	case *ssa.Call:
		vc.execCall(fr, n, x)
	case *ssa.Defer:
		if !vc.ignorableDefer(x) {
			fr.deferred = append(fr.deferred, x)
			vc.enc.notes[fmt.Sprintf("defer at %s is not executed by the VC generator (callee %s)", vc.pos(x.Pos()), x.Call.Value.Name())] = true
		}
	case *ssa.RunDefers:
		// deferred calls under contract are restricted to sync/Close style calls (see ignorableDefer)
	case *ssa.Go:
		vc.execGo(fr, n, x)
	case *ssa.Send, *ssa.Select:
		vc.errorf("%s: channel operation unsupported", vc.pos(in.Pos()))
	case *ssa.SliceToArrayPointer, *ssa.MultiConvert:
		vc.errorf("%s: %T unsupported", vc.pos(in.Pos()), in)
	case *ssa.Jump:
		ed := n.succs[0]
		ed.cond = n.reach
		if ed.back {
			vc.backEdge(fr, ed)
		}
		return false
	case *ssa.If:
		c := val(x.Cond)
		for k, ed := range n.succs {
			cond := c.T
			if k == 1 {
				cond = not(c.T)
			}
			ed.cond = vc.def(fmt.Sprintf("E.b%d.%d.%d", n.blk.Index, n.copy, k), "Bool", and(n.reach, cond))
			if ed.back {
				vc.backEdge(fr, ed)
			}
		}
		return false
	case *ssa.Return:
		var rs []Val
		for _, r := range x.Results {
			rs = append(rs, val(r))
		}
		if fr == vc.top && fr.fc != nil {
			// `atreturn [label:] expr`: an obligation at every return statement where the clause's variables are in
			// scope (a return inside a loop sees the loop's locals); $resN are the values being returned
			for i, mc := range fr.fc.MustCalls {
				base := vc.nodeLookup(fr, n, nil, nil)
				lookup := func(name string) (Val, bool) {
					if strings.HasPrefix(name, "$res") {
						var k int
						if _, err := fmt.Sscanf(name[4:], "%d", &k); err == nil && k >= 0 && k < len(rs) {
							return rs[k], true
						}
						return Val{}, false
					}
					return base(name)
				}
				ctx := &SpecCtx{vc: vc, lookup: lookup, st: n.st, oldSt: fr.entrySt, oldLookup: func(name string) (Val, bool) { return vc.paramLookup(fr, name) }, pkg: fr.fn.Pkg.Pkg, fnName: fr.fn.Name(), fr: fr}
				w, err := ctx.EvalBool(mc.When)
				if err != nil {
					mc.Skipped++
					vc.enc.notes[fmt.Sprintf("mustcall %s does not apply to the return at %s (%v)", mc.Callee, vc.pos(x.Pos()), err)] = true
					continue
				}
				mc.Applied++
				flag := vc.memAtByName(n.st, fmt.Sprintf("calledfn.%d", i))
				vc.oblige("mustcall", fmt.Sprintf("mustcall%s.b%d", labelOr(mc.Label, i), n.blk.Index), "mustcall "+mc.Callee+" "+mc.Text, vc.pos(x.Pos()), n.reach, implies(w, flag))
			}
			for k, ac := range fr.fc.AtReturns {
				base := vc.nodeLookup(fr, n, nil, nil)
				lookup := func(name string) (Val, bool) {
					if strings.HasPrefix(name, "$res") {
						var i int
						if _, err := fmt.Sscanf(name[4:], "%d", &i); err == nil && i >= 0 && i < len(rs) {
							return rs[i], true
						}
						return Val{}, false
					}
					return base(name)
				}
				ctx := &SpecCtx{vc: vc, lookup: lookup, st: n.st, oldSt: fr.entrySt, oldLookup: func(name string) (Val, bool) { return vc.paramLookup(fr, name) }, pkg: fr.fn.Pkg.Pkg, fnName: fr.fn.Name(), fr: fr}
				t, err := ctx.EvalBool(ac.E)
				if err != nil {
					ac.Skipped++
					vc.enc.notes[fmt.Sprintf("atreturn clause %q does not apply to the return at %s (%v)", truncate(ac.Text, 40), vc.pos(x.Pos()), err)] = true
					continue
				}
				ac.Applied++
				vc.oblige("atreturn", fmt.Sprintf("atreturn%s.b%d", labelOr(ac.Label, k), n.blk.Index), ac.Text, vc.pos(x.Pos()), n.reach, t)
			}
		}
		fr.rets = append(fr.rets, retInfo{reach: n.reach, results: rs, st: st.clone()})
		return false
	case *ssa.Panic:
		if !vc.panicAllowed(fr) {
			lbl := fmt.Sprintf("safety.panic.b%d", n.blk.Index)
			if fr != vc.top {
				lbl = fmt.Sprintf("safety.panic.%s.b%d", fr.fn.Name(), n.blk.Index)
			}
			if !vc.noSafety {
				vc.oblige("safety", lbl, "explicit panic is unreachable", vc.pos(x.Pos()), n.reach, "false")
			}
		}
		return false
	default:
		vc.errorf("%s: unsupported instruction %T", vc.pos(in.Pos()), in)
	}
	return true
}

func (vc *VC) panicAllowed(fr *frame) bool {
	return fr.fc != nil && fr.fc.Options["panics"] == "allowed"
}

func (vc *VC) toI(v Val) string {
	t, err := vc.enc.convert(v.T, v.Typ, types.Typ[types.Int])
	if err != nil {
		vc.errorf("index conversion: %v", err)
		return v.T
	}
	return t
}

func (vc *VC) nilCheck(fr *frame, n *Node, p string, pos token.Pos) {
	if strings.HasPrefix(p, "(mk-ptr |obj.") || strings.HasPrefix(p, "(mk-ptr (- ") {
		return // fresh allocation or global
	}
	obj := pObj(p)
	if strings.HasPrefix(obj, "|obj.") || strings.HasPrefix(obj, "(- ") {
		return
	}
	vc.safety(fr, n, "nil", "pointer is non-nil", pos, not(fmt.Sprintf("(= %s 0)", obj)))
}

func (vc *VC) boundsCheck(fr *frame, n *Node, idx, ln string, pos token.Pos) {
	e := vc.enc
	vc.safety(fr, n, "index", "index in range", pos, and(e.sle(e.ilit(0), idx), e.slt(idx, ln)))
}

// zeroInit stores the zero value of type t at p (field-wise).
func (vc *VC) zeroInit(st *State, p string, t types.Type) {
	switch u := t.Underlying().(type) {
	case *types.Struct:
		for i := 0; i < u.NumFields(); i++ {
			ft := u.Field(i).Type()
			if isCellType(ft) {
				vc.storeM(st, vc.enc.memForField(t, i), vc.enc.fieldPtr(p, i), ft, vc.enc.zero(ft))
				continue
			}
			vc.zeroInit(st, vc.enc.fieldPtr(p, i), ft)
		}
	case *types.Array:
		// all elements of the fresh array are zero
		if u.Len() <= 16 {
			for i := int64(0); i < u.Len(); i++ {
				vc.zeroInit(st, mkPtr(pObj(p), vc.enc.ilit(i), pFld(p)), u.Elem())
			}
			return
		}
		vc.zeroFillAt(st, pObj(p), pFld(p), u.Elem())
	default:
		vc.store(st, p, t, vc.enc.zero(t))
	}
}

// zeroFill: every cell of fresh object obj (elements of type elem) is zero.
func (vc *VC) zeroFill(st *State, obj string, elem types.Type) {
	vc.zeroFillAt(st, obj, "0", elem)
}

func (vc *VC) zeroFillAt(st *State, obj, baseFld string, elem types.Type) {
	vc.bulkUpdate(st, elem, []bulkCase{{
		cond: func(p string, path []int) string {
			return fmt.Sprintf("(and (= (p.obj %s) %s) (= (p.fld %s) %s))", p, obj, p, pathFld(baseFld, path))
		},
		val: func(p string, path []int, cell types.Type, mem string) string { return vc.enc.zero(cell) },
	}})
}

func (vc *VC) execSlice(fr *frame, n *Node, x *ssa.Slice) {
	e := vc.enc
	a := vc.value(fr, n, x.X)
	z := e.ilit(0)
	lo := z
	if x.Low != nil {
		lo = vc.toI(vc.value(fr, n, x.Low))
	}
	switch u := x.X.Type().Underlying().(type) {
	case *types.Slice:
		hi := sLen(a.T)
		if x.High != nil {
			hi = vc.toI(vc.value(fr, n, x.High))
		}
		mx := sCap(a.T)
		if x.Max != nil {
			mx = vc.toI(vc.value(fr, n, x.Max))
		}
		vc.safety(fr, n, "slice", "slice bounds in range", x.Pos(), and(e.sle(z, lo), e.sle(lo, hi), e.sle(hi, mx), e.sle(mx, sCap(a.T))))
		term := fmt.Sprintf("(mk-slice %s %s %s %s %s)", sArr(a.T), e.add(sOff(a.T), lo), e.sub(hi, lo), e.sub(mx, lo), sFld(a.T))
		if _, syntactic := splitApp(a.T, "mk-slice", 5); syntactic || lo == "0" {
			vc.defVal(n, x, term)
		} else {
			// opaque name plus an idx-triggered lemma: element j of s[lo:hi] is element lo+j of s
			// (a consequence of the definition of idx; it lets quantified facts about s reach the sub-slice)
			name := vc.decl(x.Name(), "Slice")
			vc.emit(fmt.Sprintf("(assert (= %s %s))", name, term))
			vc.emit(fmt.Sprintf("(assert (forall ((j Int)) (! (= %s %s) :pattern (%s))))", e.elemPtr(name, "j"), e.elemPtr(a.T, e.add(lo, "j")), e.elemPtr(name, "j")))
			vc.bind(n, x, name)
		}
	case *types.Basic: // string
		hi := fmt.Sprintf("(strlen %s)", a.T)
		if x.High != nil {
			hi = vc.toI(vc.value(fr, n, x.High))
		}
		vc.safety(fr, n, "slice", "string slice bounds in range", x.Pos(), and(e.sle(z, lo), e.sle(lo, hi), e.sle(hi, fmt.Sprintf("(strlen %s)", a.T))))
		vc.defVal(n, x, vc.strSub(a.T, lo, hi))
	case *types.Pointer: // pointer to array
		at := u.Elem().Underlying().(*types.Array)
		N := e.ilit(at.Len())
		hi := N
		if x.High != nil {
			hi = vc.toI(vc.value(fr, n, x.High))
		}
		vc.nilCheck(fr, n, a.T, x.Pos())
		vc.safety(fr, n, "slice", "array slice bounds in range", x.Pos(), and(e.sle(z, lo), e.sle(lo, hi), e.sle(hi, N)))
		vc.defVal(n, x, fmt.Sprintf("(mk-slice %s %s %s %s %s)", pObj(a.T), lo, e.sub(hi, lo), e.sub(N, lo), pFld(a.T)))
	default:
		vc.errorf("%s: Slice of %s", vc.pos(x.Pos()), x.X.Type())
	}
}

// strSub: s[lo:hi] as an abstract string with the right length; s[0:len(s)] == s.
func (vc *VC) strSub(s, lo, hi string) string {
	e := vc.enc
	e.addPre("strsub", fmt.Sprintf("(declare-fun strsub (Str %s %s) Str)", e.I(), e.I()))
	e.addPre("strsub.ax", "(assert (forall ((s Str) (a Int) (b Int)) (! (=> (and (<= 0 a) (<= a b) (<= b (strlen s))) (= (strlen (strsub s a b)) (- b a))) :pattern ((strsub s a b)))))\n"+
		"(assert (forall ((s Str)) (! (= (strsub s 0 (strlen s)) s) :pattern ((strlen s)))))")
	return fmt.Sprintf("(strsub %s %s %s)", s, lo, hi)
}

func (vc *VC) execConvert(fr *frame, n *Node, x *ssa.Convert, a Val) {
	e := vc.enc
	from, to := x.X.Type(), x.Type()
	// string <-> []byte / []rune
	if _, isSl := to.Underlying().(*types.Slice); isSl && isString(from) {
		// fresh slice with len == len(s); contents abstract
		st := n.st
		obj := vc.def("obj."+x.Name(), "Int", fmt.Sprintf("(+ %s 1)", st.wm))
		st.wm = obj
		ln := fmt.Sprintf("(strlen %s)", a.T)
		vc.defVal(n, x, fmt.Sprintf("(mk-slice %s %s %s %s 0)", obj, e.ilit(0), ln, ln))
		vc.enc.notes["string->[]byte conversion: contents abstract"] = true
		return
	}
	if _, isSl := from.Underlying().(*types.Slice); isSl && isString(to) {
		v := vc.havocVal(n, x, n.st)
		vc.assume(implies(n.reach, fmt.Sprintf("(= (strlen %s) %s)", v.T, sLen(a.T))))
		vc.enc.notes["[]byte->string conversion: contents abstract"] = true
		return
	}
	if isFloat(from) && isInteger(to) {
		// result is implementation-defined when out of range: unconstrained in that case
		t, err := e.convert(a.T, from, to)
		if err != nil {
			vc.errorf("%s: %v", vc.pos(x.Pos()), err)
			vc.havocVal(n, x, n.st)
			return
		}
		v := vc.havocVal(n, x, n.st)
		w, signed := intWidth(to.Underlying().(*types.Basic))
		var lo, hi float64
		if signed {
			lo, hi = -float64(uint64(1)<<(w-1)), float64(uint64(1)<<(w-1))
		} else {
			lo, hi = -1, float64(uint64(1)<<(w-1))*2
		}
		is32 := from.Underlying().(*types.Basic).Kind() == types.Float32
		var inRange string
		if signed {
			inRange = fmt.Sprintf("(and (fp.geq %s %s) (fp.lt %s %s))", a.T, e.float64Lit(lo, is32), a.T, e.float64Lit(hi, is32))
		} else {
			inRange = fmt.Sprintf("(and (fp.gt %s %s) (fp.lt %s %s))", a.T, e.float64Lit(lo, is32), a.T, e.float64Lit(hi, is32))
		}
		vc.assume(implies(and(n.reach, inRange), fmt.Sprintf("(= %s %s)", v.T, t)))
		return
	}
	if pt, ok := to.Underlying().(*types.Pointer); ok {
		_ = pt
		vc.bind(n, x, a.T)
		return
	}
	t, err := e.convert(a.T, from, to)
	if err != nil {
		vc.errorf("%s: %v", vc.pos(x.Pos()), err)
		vc.havocVal(n, x, n.st)
		return
	}
	vc.defVal(n, x, t)
}

func (vc *VC) box(t types.Type, term string) string {
	e := vc.enc
	k := typeKey(t)
	s := e.sortOf(t)
	// one prelude entry per symbol: entries are included by the symbol they declare
	e.addPre("box."+k, fmt.Sprintf("(declare-fun box.%s (%s) Int)", k, s))
	e.addPre("unbox."+k, fmt.Sprintf("(declare-fun unbox.%s (Int) %s)", k, s))
	e.addPre("box."+k+".ax", fmt.Sprintf("(assert (forall ((x %s)) (! (= (unbox.%s (box.%s x)) x) :pattern ((box.%s x)))))", s, k, k, k))
	return fmt.Sprintf("(box.%s %s)", k, term)
}

func (vc *VC) unbox(t types.Type, term string) string {
	vc.box(t, vc.enc.zero(t))
	return fmt.Sprintf("(unbox.%s %s)", typeKey(t), term)
}

func (vc *VC) execTypeAssert(fr *frame, n *Node, x *ssa.TypeAssert) {
	e := vc.enc
	a := vc.value(fr, n, x.X)
	if _, isIface := x.AssertedType.Underlying().(*types.Interface); isIface {
		// interface-to-interface: success is abstract (non-nil required)
		ok := vc.decl("ta.ok", "Bool")
		vc.assume(implies(ok, not(fmt.Sprintf("(= %s nil.iface)", a.T))))
		if x.CommaOk {
			n.env[x] = Val{Elems: []Val{{T: fmt.Sprintf("(ite %s %s nil.iface)", ok, a.T), Typ: x.AssertedType}, {T: ok, Typ: types.Typ[types.Bool]}}}
		} else {
			vc.safety(fr, n, "typeassert", "type assertion succeeds", x.Pos(), ok)
			vc.bind(n, x, a.T)
		}
		return
	}
	tag := e.typeTag(x.AssertedType)
	ok := fmt.Sprintf("(= (i.tag %s) %d)", a.T, tag)
	v := vc.unbox(x.AssertedType, fmt.Sprintf("(i.val %s)", a.T))
	if x.CommaOk {
		okn := vc.def("ta.ok", "Bool", ok)
		vn := vc.def("ta.v", e.sortOf(x.AssertedType), fmt.Sprintf("(ite %s %s %s)", okn, v, e.zero(x.AssertedType)))
		n.env[x] = Val{Elems: []Val{{T: vn, Typ: x.AssertedType}, {T: okn, Typ: types.Typ[types.Bool]}}}
		vc.assume(implies(n.reach, e.wellFormed(vn, x.AssertedType, n.st.wm)))
		return
	}
	vc.safety(fr, n, "typeassert", "type assertion succeeds", x.Pos(), ok)
	nv := vc.defVal(n, x, v)
	vc.assume(implies(n.reach, e.wellFormed(nv.T, x.AssertedType, n.st.wm)))
}

func (vc *VC) execLookup(fr *frame, n *Node, x *ssa.Lookup) {
	e := vc.enc
	a, k := vc.value(fr, n, x.X), vc.value(fr, n, x.Index)
	switch u := x.X.Type().Underlying().(type) {
	case *types.Map:
		has := vc.mapHas(n.st, u, a.T, k.T)
		v := vc.mapLookup(n.st, u, a.T, k.T)
		if x.CommaOk {
			okn := vc.def("lk.ok", "Bool", has)
			vn := vc.def("lk.v", e.sortOf(u.Elem()), v)
			vc.assume(implies(n.reach, e.wellFormed(vn, u.Elem(), n.st.wm)))
			n.env[x] = Val{Elems: []Val{{T: vn, Typ: u.Elem()}, {T: okn, Typ: types.Typ[types.Bool]}}}
			return
		}
		nv := vc.defVal(n, x, v)
		vc.assume(implies(n.reach, e.wellFormed(nv.T, u.Elem(), n.st.wm)))
	case *types.Basic: // string index
		idx := vc.toI(k)
		vc.boundsCheck(fr, n, idx, fmt.Sprintf("(strlen %s)", a.T), x.Pos())
		vc.defVal(n, x, e.uf("strat", []string{"Str", e.I()}, e.sortOf(types.Typ[types.Uint8]), a.T, idx))
	}
}

func (vc *VC) execNext(fr *frame, n *Node, x *ssa.Next) {
	e := vc.enc
	it := vc.value(fr, n, x.Iter)
	ok := vc.decl("next.ok", "Bool")
	boolT := types.Typ[types.Bool]
	if x.IsString {
		idx := vc.decl("next.i", e.I())
		r := vc.decl("next.r", e.sortOf(types.Typ[types.Rune]))
		vc.assume(implies(ok, and(e.sle(e.ilit(0), idx), e.slt(idx, fmt.Sprintf("(strlen %s)", it.T)))))
		n.env[x] = Val{Elems: []Val{{T: ok, Typ: boolT}, {T: idx, Typ: types.Typ[types.Int]}, {T: r, Typ: types.Typ[types.Rune]}}}
		vc.enc.notes["range over string: iteration order and contents abstract"] = true
		return
	}
	mt := it.Typ.Underlying().(*types.Map)
	k := vc.decl("next.k", e.sortOf(mt.Key()))
	vc.assume(e.wellFormed(k, mt.Key(), n.st.wm))
	v := vc.def("next.v", e.sortOf(mt.Elem()), vc.mapLookup(n.st, mt, it.T, k))
	vc.assume(implies(ok, vc.mapHas(n.st, mt, it.T, k)))
	vc.assume(e.wellFormed(v, mt.Elem(), n.st.wm))
	n.env[x] = Val{Elems: []Val{{T: ok, Typ: boolT}, {T: k, Typ: mt.Key()}, {T: v, Typ: mt.Elem()}}}
	rg, _ := x.Iter.(*ssa.Range)
	g := vc.rangeGhosts[rg]
	if g == nil {
		vc.enc.notes["range over map: each iteration sees an arbitrary present key (no visited-set reasoning)"] = true
		return
	}
	vis := vc.memAtByName(n.st, g.name)
	// the key produced now was not produced before
	vc.assume(implies(ok, not(fmt.Sprintf("(select %s %s)", vis, k))))
	n.st.mem[g.name] = vc.def(g.name, e.mapMemSorts[g.name], fmt.Sprintf("(store %s %s true)", vis, k))
	if why := vc.loopMayDelete(fr, n, mt); why != "" {
		vc.enc.notes["range over map at "+vc.pos(x.Pos())+": no exhaustiveness assumption at loop exit ("+why+")"] = true
	} else {
		ks := e.sortOf(mt.Key())
		had := vc.mapHas(g.st, mt, g.mapT, "kk")
		vc.assume(implies(n.reach, implies(not(ok), fmt.Sprintf("(forall ((kk %s)) (! (=> %s (select %s kk)) :pattern ((select %s kk)) :pattern (%s)))", ks, had, vis, vis, had))))
		vc.enc.notes["range over map: every iteration produces a present key not produced before; when the loop ends every key present at its start has been produced (the loop does not delete from a map of this type)"] = true
	}
}

// loopMayDelete: can the loop around this range-over-map header delete entries from a map of type mt? Then the
// "every key was produced" assumption at loop exit would be unsound. Conservative: any delete builtin in the loop,
// any call whose mod-set touches maps of this type or is unknown.
func (vc *VC) loopMayDelete(fr *frame, n *Node, mt *types.Map) string {
	l := n.loop
	if l == nil {
		l = fr.innermostLoop(n.blk)
	}
	if l == nil {
		return "not a loop header"
	}
	tk := typeKey(mt)
	for b := range l.blocks {
		for _, in := range b.Instrs {
			ci, ok := in.(ssa.CallInstruction)
			if !ok {
				continue
			}
			if _, isGo := in.(*ssa.Go); isGo {
				return "goroutine started in the loop"
			}
			c := ci.Common()
			if bi, ok := c.Value.(*ssa.Builtin); ok {
				if bi.Name() == "delete" || bi.Name() == "clear" {
					// (an obligation "the deletion hits another map" was tried and withdrawn: it alarmed on
					// TrimLowFrequencyEdges, which legitimately deletes the current key of the ranged map; DESIGN 20.5)
					return "the loop calls " + bi.Name()
				}
				continue
			}
			callee := c.StaticCallee()
			if callee == nil {
				if _, isMC := c.Value.(*ssa.MakeClosure); !isMC {
					// dynamic call: an interface method or function value; could it reach this map? only through memory
					// it can reach — be conservative for in-module map types
					if c.IsInvoke() || true {
						if fvPure(fr, c) {
							continue
						}
						return "dynamic call in the loop"
					}
				}
				continue
			}
			if callee.Pkg == nil || !strings.HasPrefix(callee.Pkg.Pkg.Path(), modPath) {
				continue // library functions do not see pprof's maps except through arguments of map type
			}
			ms := vc.prog.ModSetOf(callee)
			if ms.all {
				return "call of " + callee.Name() + " with unknown effects"
			}
			if _, touches := ms.maps[tk]; touches {
				return "call of " + callee.Name() + " may update maps of this type"
			}
		}
	}
	return ""
}

// fvPure: a call of a function-typed parameter in a function whose contract declares funcvalues=pure
func fvPure(fr *frame, c *ssa.CallCommon) bool {
	if c.IsInvoke() {
		return false
	}
	return fr.fc != nil && fr.fc.Options["funcvalues"] == "pure"
}

func (vc *VC) ignorableDefer(x *ssa.Defer) bool {
	if c := x.Call.StaticCallee(); c != nil {
		full := c.String()
		switch full {
		case "(*sync.Mutex).Unlock", "(*sync.RWMutex).Unlock", "(*sync.RWMutex).RUnlock", "(*sync.WaitGroup).Done", "(*os.File).Close":
			return true
		}
	}
	if x.Call.IsInvoke() && x.Call.Method.Name() == "Close" {
		return true
	}
	return false
}

func (vc *VC) execGo(fr *frame, n *Node, x *ssa.Go) {
	// goroutine bodies are verified separately (spawn rule); their effects become visible at Wait
	var callee *ssa.Function
	if c := x.Call.StaticCallee(); c != nil {
		callee = c
	} else if mc, ok := x.Call.Value.(*ssa.MakeClosure); ok {
		callee = mc.Fn.(*ssa.Function)
	}
	ms := &ModSet{all: true}
	if callee != nil {
		ms = vc.prog.ModSetOf(callee)
	}
	if fr.goMods == nil {
		fr.goMods = newModSet()
	}
	fr.goMods.union(ms)
	// captured local variables the goroutine only loads from: nothing it calls can reach the cell
	// (its address is never passed on), so the value survives the barrier
	if mc, ok := x.Call.Value.(*ssa.MakeClosure); ok && callee != nil && len(callee.AnonFuncs) == 0 {
		for i, b := range mc.Bindings {
			if _, isAlloc := b.(*ssa.Alloc); !isAlloc || i >= len(callee.FreeVars) {
				continue
			}
			ro := true
			if refs := callee.FreeVars[i].Referrers(); refs != nil {
				for _, r := range *refs {
					if u, ok := r.(*ssa.UnOp); !ok || u.Op != token.MUL {
						ro = false
					}
				}
			}
			if ro {
				fr.goReadOnly = append(fr.goReadOnly, b)
			}
		}
	}
	vc.enc.notes["go statement: spawned body not interleaved; its writes are havoced at the next WaitGroup.Wait (race freedom is the spawn rule's obligation)"] = true
}

// havocMods havocs the memories in ms (used for calls and barriers).
func (vc *VC) havocMods(n *Node, ms *ModSet) {
	st := n.st
	pre := st.clone()
	if ms.all || ms.allocates {
		wm := vc.decl("wm.c", "Int")
		vc.assume(fmt.Sprintf("(>= %s %s)", wm, st.wm))
		st.wm = wm
	}
	if ms.all {
		// every memory, including those discovered later (new epoch); ghost call flags are not program memory and
		// keep their value
		ghosts := map[string]string{}
		for k, v := range st.mem {
			if strings.HasPrefix(k, "called") {
				ghosts[k] = v
			}
		}
		defer func() {
			for k, v := range ghosts {
				st.mem[k] = v
			}
		}()
		st.mem = map[string]string{}
		st.epoch = vc.newEpoch("havoc", nil, nil)
		st.epoch.wm = st.wm
		vc.enc.notes["call with unknown effects: all memories havoced"] = true
	} else {
		for _, m := range ms.memNames(vc) {
			st.mem[m] = vc.decl(m+".c", vc.memSortByName(m, vc.enc.mems[m]))
			if wf := vc.memWF(m, st.mem[m], st.wm); wf != "" {
				vc.emit(strings.TrimSpace(wf))
			}
		}
		vc.havocFresh(st, pre, ms)
	}
}

// havocFresh: memories written only inside objects allocated after `pre`: new version that
// agrees with the old one on every object that existed before (frame for fresh-only writes).
func (vc *VC) havocFresh(st, pre *State, ms *ModSet) {
	for _, m := range ms.freshNames(vc) {
		t := vc.enc.mems[m]
		old := vc.memAtByName(pre, m)
		nw := vc.decl(m+".f", vc.memSortByName(m, t))
		st.mem[m] = nw
		if wf := vc.memWF(m, nw, st.wm); wf != "" {
			vc.emit(strings.TrimSpace(wf))
		}
		vc.emit(fmt.Sprintf("(assert (forall ((p Ptr)) (! (=> (<= (p.obj p) %s) (= (select %s p) (select %s p))) :pattern ((select %s p)))))", pre.wm, nw, old, nw))
	}
}

var _ = sort.Strings
