#!/usr/bin/env python3
"""Dev tool: open the outermost universal quantifier of the (negated) goal of a dumped pverif
query into fresh constants, so that case assumptions can be appended by hand.
usage: openskolem.py in.smt2 out.smt2 ['(assert ...)' ...]"""
import sys
def parse(t):
    pos=0
    def rd():
        nonlocal pos
        while t[pos].isspace(): pos+=1
        if t[pos]=='(':
            pos+=1; out=[]
            while True:
                while t[pos].isspace(): pos+=1
                if t[pos]==')': pos+=1; return out
                out.append(rd())
        elif t[pos]=='|':
            j=t.index('|',pos+1); a=t[pos:j+1]; pos=j+1; return a
        else:
            j=pos
            while not t[j].isspace() and t[j] not in '()': j+=1
            a=t[pos:j]; pos=j; return a
    return rd()
def show(x): return x if isinstance(x,str) else '('+' '.join(show(y) for y in x)+')'
s=open(sys.argv[1]).read()
i=s.rindex('(assert (not (=> ')
pre=s[:i]; goal=s[i:s.index('(check-sat)',i)].strip()
g=parse(goal); R=g[1][1][1]; fa=g[1][1][2]
decl=''
body=fa
while isinstance(body,list) and body and body[0]=='forall':
    for v,srt in body[1]:
        decl+=f'(declare-const {show(v)} {show(srt)})\n'
    body=body[2]
    if isinstance(body,list) and body and body[0]=='!': body=body[1]
out=pre+decl+f'(assert {show(R)})\n(assert (not {show(body)}))\n'+'\n'.join(sys.argv[3:])+'\n(check-sat)\n'
open(sys.argv[2],'w').write(out)
print(decl.strip())
