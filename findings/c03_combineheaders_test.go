package profile

import "testing"

// Demonstrations for the combineHeaders obligations that fail on the pre-fix code
// (profile.combineHeaders#loop2.inv.5.step / #ensures.noalias).

func vt(t, u string) *ValueType { return &ValueType{Type: t, Unit: u} }

func mk(timeNanos int64) *Profile {
	return &Profile{SampleType: []*ValueType{vt("samples", "count")}, PeriodType: vt("cpu", "ns"), TimeNanos: timeNanos}
}

func TestVerifFindingTimeNanos(t *testing.T) {
	p, err := combineHeaders([]*Profile{mk(5), mk(0)})
	if err != nil {
		t.Fatal(err)
	}
	if p.TimeNanos != 5 {
		t.Errorf("VERIF-FINDING: collection time of [5, 0] is %d, want the earliest non-zero one (5)", p.TimeNanos)
	}
	p, _ = combineHeaders([]*Profile{mk(5), mk(0), mk(7)})
	if p.TimeNanos != 5 {
		t.Errorf("VERIF-FINDING: collection time of [5, 0, 7] is %d, want 5", p.TimeNanos)
	}
}

func TestVerifFindingHeaderAliasing(t *testing.T) {
	a, b := mk(1), mk(2)
	p, err := combineHeaders([]*Profile{a, b})
	if err != nil {
		t.Fatal(err)
	}
	if p.SampleType[0] == a.SampleType[0] || p.PeriodType == a.PeriodType {
		t.Errorf("VERIF-FINDING: merged profile shares ValueType objects with its first input")
	}
	p.SampleType[0].Unit = "changed"
	if a.SampleType[0].Unit != "count" {
		t.Errorf("VERIF-FINDING: writing the merged profile's sample type changed the input's (%q)", a.SampleType[0].Unit)
	}
}
