package main

// VC generation over go/ssa: expanded CFG (with unrolling), Boogie-style loop
// cutting, passive encoding into SMT-LIB definitions, obligations as queries.

import (
	"fmt"
	"go/token"
	"go/types"
	"sort"
	"strings"

	"golang.org/x/tools/go/ssa"
)

type State struct {
	mem   map[string]string // memory name -> current version term
	wm    string            // allocation watermark term
	epoch *Epoch            // resolves memories not (yet) mentioned in mem
}

// Epoch: memories are discovered lazily while encoding; a state that has never
// touched memory M sees the version determined by its epoch: the function-entry
// version, a havoc-all version, or a merge of predecessor epochs.
type Epoch struct {
	wm       string // watermark at the time of a havoc (for well-formedness of stored values)
	id       int
	kind     string // entry, havoc, merge
	preds    []*Epoch
	conds    []string
	resolved map[string]string
}

func (s *State) clone() *State {
	m := make(map[string]string, len(s.mem))
	for k, v := range s.mem {
		m[k] = v
	}
	return &State{mem: m, wm: s.wm, epoch: s.epoch}
}

func (vc *VC) newEpoch(kind string, preds []*Epoch, conds []string) *Epoch {
	vc.epochCtr++
	return &Epoch{id: vc.epochCtr, kind: kind, preds: preds, conds: conds, resolved: map[string]string{}}
}

// memWF: every value stored in a (declared, i.e. unconstrained) memory version is a
// well-formed Go value: slice headers are sane, pointers are allocated, integers in range.
// rangeGhost: ghost state of one range-over-map statement. vis is a pseudo memory of sort (Array K Bool): the keys
// produced so far. It is initialised to the empty set at the range statement, havoced with the loop, extended at
// every iteration (which produces a present key not produced before), and at loop exit every key that was present
// when the range statement was executed has been produced — provided the loop never deletes from a map of that
// type (Go: an entry removed before it is reached is not produced; an entry added during the iteration may be
// skipped; entries that stay are produced exactly once).
type rangeGhost struct {
	name  string
	st    *State // state at the range statement (domain of the map when the iteration starts)
	mapT  string
	mt    *types.Map
}

func (vc *VC) memWF(name, ver, wm string) string {
	t, ok := vc.enc.mems[name]
	if !ok {
		return ""
	}
	if _, isMapMem := vc.enc.mapMemSorts[name]; isMapMem {
		// values stored in maps are well formed too (pointers refer to allocated objects, slice headers are sane)
		mt, isMap := t.(*types.Map)
		if !isMap || !strings.HasPrefix(name, "MV_") {
			return ""
		}
		wf := vc.enc.wellFormed(fmt.Sprintf("(select (select %s m) k)", ver), mt.Elem(), wm)
		if wf == "true" {
			return ""
		}
		return fmt.Sprintf("\n(assert (forall ((m Int) (k %s)) (! %s :pattern ((select (select %s m) k)))))", vc.enc.sortOf(mt.Key()), wf, ver)
	}
	wf := vc.enc.wellFormed(fmt.Sprintf("(select %s p)", ver), t, wm)
	if wf == "true" {
		return ""
	}
	return fmt.Sprintf("\n(assert (forall ((p Ptr)) (! %s :pattern ((select %s p)))))", wf, ver)
}

func (vc *VC) resolveEpoch(ep *Epoch, name, sort string) string {
	if v, ok := ep.resolved[name]; ok {
		return v
	}
	var v string
	switch ep.kind {
	case "entry":
		v = "|" + name + "@entry|"
		vc.enc.addPre("mem:"+name, fmt.Sprintf("(declare-const %s %s)", v, sort)+vc.memWF(name, v, "wm@entry"))
	case "havoc":
		v = fmt.Sprintf("|%s@h%d|", name, ep.id)
		wm := ep.wm
		if wm == "" {
			wm = "wm@entry"
		}
		vc.emit(fmt.Sprintf("(declare-const %s %s)", v, sort))
		if wf := vc.memWF(name, v, wm); wf != "" {
			vc.emit(strings.TrimSpace(wf))
		}
	case "formal":
		v = "|fm." + name + "|"
	case "merge":
		term := vc.resolveEpoch(ep.preds[len(ep.preds)-1], name, sort)
		same := true
		for i := len(ep.preds) - 2; i >= 0; i-- {
			t := vc.resolveEpoch(ep.preds[i], name, sort)
			if t != term {
				same = false
			}
			term = fmt.Sprintf("(ite %s %s %s)", ep.conds[i], t, term)
		}
		if same {
			v = vc.resolveEpoch(ep.preds[0], name, sort)
		} else {
			v = vc.def(name+".em", sort, term)
		}
	}
	ep.resolved[name] = v
	return v
}

type closureVal struct {
	fn       *ssa.Function
	bindings []Val
}

type Obligation struct {
	Name    string // <pkg>.<func>#<label>
	Kind    string // ensures invariant-entry invariant-step decreases safety requires unwind lemma assert cover
	Text    string // clause text / description
	Pos     string // source position
	Goal    string // SMT term that must be valid under Path
	Path    string // path condition (reach of node)
	lineIdx int    // number of body lines visible
	Bounded int
	Func    string
	ExpectFail bool // canary (known finding class W)
	// result
	Result  *SolveResult
	Query   string
	vc      *VC
	Vars    map[string]string // spec name -> SMT term (for model extraction)
	KF      *KnownFinding
	Split   []string
	Confirmed string
}

type LoopInfo struct {
	header   *ssa.BasicBlock
	blocks   map[*ssa.BasicBlock]bool
	backPred []*ssa.BasicBlock
	ordinal  int
	contract *LoopContract
	parent   *LoopInfo
	entryVals map[*ssa.Phi]Val // values of the loop-carried variables when the loop is entered (for entry(x))
	hdrVals   map[*ssa.Phi]Val // values of the loop-carried variables at the header in the current iteration (for iter(x))
	hdrSt     *State           // state at the header in the current iteration (for atiter(k, e))
}

type Node struct {
	blk    *ssa.BasicBlock
	copy   int
	id     int
	succs  []*Edge
	preds  []*Edge
	env    map[ssa.Value]Val
	st     *State
	reach  string
	loop   *LoopInfo // non-nil if this node is a cut-loop header
	unwind bool      // header copy beyond the unroll bound
	done   bool
}

type Edge struct {
	from, to *Node
	cond     string // full edge condition (from.reach && branch cond), set when from is executed
	back     bool   // cut back edge (not followed)
	predIdx  int    // index of from.blk in to.blk.Preds
}

type retInfo struct {
	reach   string
	results []Val
	st      *State
}

// frame is one function body being encoded (top-level or inlined).
type frame struct {
	fn       *ssa.Function
	fc       *FuncContract
	params   []Val
	freeVars []Val
	prefix   string
	entrySt  *State
	dbg      *debugInfo
	loops    []*LoopInfo
	nodes    []*Node
	rets     []retInfo
	depth    int
	goMods   *ModSet
	deferred []*ssa.Defer
	goReadOnly []ssa.Value // local cells captured by goroutines that only load from them (kept across Wait)
	loopPre  map[int]*State // state on (latest) entry to the loop with this ordinal, for atloop(k, e)
}

type VC struct {
	enc   *Encoder
	prog  *Prog
	fn    *ssa.Function
	fc    *FuncContract
	lines []string
	obls  []*Obligation
	errs  []string
	top   *frame
	seqCloID int
	clos  map[string]*closureVal
	memDeclared map[string]bool
	epochCtr int
	recSpecs map[string]*recSpecInfo
	nameCount map[string]int
	mapLenUse int // 0 unknown, 1 yes, -1 no
	curClo    *closureVal // closure being called (for contracts that mention captured variables)
	rangeGhosts map[*ssa.Range]*rangeGhost // visited-set ghost state of range-over-map loops
	callSt    map[string]*State // memory state right after the latest call per callee (for aftercall("F", e))
	callRes   map[string][]Val // results of the latest call per callee in the function under verification
	callCount map[string]int
	lemma     *Lemma
	uses      []string
	memDefs   map[string][2]string
	entryCtx  *SpecCtx
	lemmaPkg  *ssa.Package
	noSafety bool
	safetyKinds map[string]bool
	qname string
}

func (vc *VC) emit(s string) { vc.lines = append(vc.lines, s) }

func (vc *VC) def(prefix, sort, term string) string {
	n := vc.enc.fresh(prefix)
	q := "|" + n + "|"
	if (sort == "Slice" || sort == "Ptr") && strings.HasPrefix(term, "(ite ") {
		// a named constant (not a macro) keeps E-matching patterns over it free of ite
		vc.emit(fmt.Sprintf("(declare-const %s %s)", q, sort))
		vc.emit(fmt.Sprintf("(assert (= %s %s))", q, term))
		return q
	}
	vc.emit(fmt.Sprintf("(define-fun %s () %s %s)", q, sort, term))
	if strings.HasPrefix(term, "(mk-slice ") || strings.HasPrefix(term, "(mk-ptr ") || isLiteralTerm(term) {
		curDefs[q] = term
	} else if d, ok := curDefs[term]; ok {
		curDefs[q] = d
	}
	return q
}

func isLiteralTerm(t string) bool {
	if t == "" {
		return false
	}
	if strings.HasPrefix(t, "(_ bv") {
		return true
	}
	if strings.HasPrefix(t, "(- ") {
		t = strings.TrimSuffix(t[3:], ")")
	}
	for _, c := range t {
		if c < '0' || c > '9' {
			return false
		}
	}
	return true
}

func (vc *VC) decl(prefix, sort string) string {
	n := vc.enc.fresh(prefix)
	q := "|" + n + "|"
	vc.emit(fmt.Sprintf("(declare-const %s %s)", q, sort))
	return q
}

func (vc *VC) assume(f string) {
	if f == "true" {
		return
	}
	vc.emit("(assert " + f + ")")
}

func (vc *VC) errorf(f string, a ...interface{}) {
	vc.errs = append(vc.errs, fmt.Sprintf(f, a...))
}

func (vc *VC) oblige(kind, label, text, pos, path, goal string) *Obligation {
	if c := vc.nameCount[label]; c > 0 {
		vc.nameCount[label] = c + 1
		label = fmt.Sprintf("%s.%d", label, c+1)
	} else {
		vc.nameCount[label] = 1
	}
	o := &Obligation{Name: vc.qname + "#" + label, Kind: kind, Text: text, Pos: pos, Goal: goal, Path: path, lineIdx: len(vc.lines), Func: vc.qname, vc: vc}
	vc.obls = append(vc.obls, o)
	return o
}

// memAt returns the current version of memory `name` in state st.
func (vc *VC) memAt(st *State, t types.Type) string {
	name := vc.enc.memFor(t)
	if v, ok := st.mem[name]; ok {
		return v
	}
	return vc.resolveEpoch(st.epoch, name, vc.enc.memSort(t))
}

// ---- loads and stores ----

func (vc *VC) load(st *State, p string, t types.Type) string { return vc.loadM(st, "", p, t) }

// loadM loads a value of type t at p; mem names the memory of the cell when t is a
// cell type reached through a private struct field ("" = the generic memory of t).
func (vc *VC) loadM(st *State, mem string, p string, t types.Type) string {
	e := vc.enc
	switch u := t.Underlying().(type) {
	case *types.Struct:
		s := e.structSort(t)
		if u.NumFields() == 0 {
			return "mk-" + s
		}
		var fs []string
		for i := 0; i < u.NumFields(); i++ {
			fm := ""
			if isCellType(u.Field(i).Type()) {
				fm = e.memForField(t, i)
			}
			fs = append(fs, vc.loadM(st, fm, e.fieldPtr(p, i), u.Field(i).Type()))
		}
		return fmt.Sprintf("(mk-%s %s)", s, strings.Join(fs, " "))
	case *types.Array:
		vc.errorf("load of array value %s unsupported", t)
		return e.zero(t)
	}
	if mem == "" {
		mem = e.memFor(t)
	}
	m := vc.memAtByName(st, mem)
	// read-after-write of the same cell: resolve syntactically, so that quantifier
	// patterns over the loaded value see the stored term itself
	if d, ok := vc.memDefs[m]; ok && d[0] == p {
		return d[1]
	}
	return fmt.Sprintf("(select %s %s)", m, p)
}

func (vc *VC) store(st *State, p string, t types.Type, v string) { vc.storeM(st, "", p, t, v) }

func (vc *VC) storeM(st *State, mem string, p string, t types.Type, v string) {
	e := vc.enc
	switch u := t.Underlying().(type) {
	case *types.Struct:
		s := e.structSort(t)
		for i := 0; i < u.NumFields(); i++ {
			fm := ""
			if isCellType(u.Field(i).Type()) {
				fm = e.memForField(t, i)
			}
			vc.storeM(st, fm, e.fieldPtr(p, i), u.Field(i).Type(), fmt.Sprintf("(%s.%d %s)", s, i, v))
		}
		return
	case *types.Array:
		vc.errorf("store of array value %s unsupported", t)
		return
	}
	name := mem
	if name == "" {
		name = e.memFor(t)
	}
	cur := vc.memAtByName(st, name)
	st.mem[name] = vc.def(name, e.memSort(t), fmt.Sprintf("(store %s %s %s)", cur, p, v))
	if vc.memDefs == nil {
		vc.memDefs = map[string][2]string{}
	}
	vc.memDefs[st.mem[name]] = [2]string{p, v}
}

// leafCells enumerates the scalar cells of a value of type t: (field path function, cell type)
type leafCell struct {
	path []int
	typ  types.Type
	mem  string // memory name of the cell
}

func leafCells(t types.Type, path []int, out *[]leafCell) { leafCellsM(t, path, "", out) }

func leafCellsM(t types.Type, path []int, mem string, out *[]leafCell) {
	switch u := t.Underlying().(type) {
	case *types.Struct:
		for i := 0; i < u.NumFields(); i++ {
			fm := ""
			if isCellType(u.Field(i).Type()) && curProg != nil {
				fm = curProg.fieldMem(t, i)
			}
			leafCellsM(u.Field(i).Type(), append(append([]int{}, path...), i), fm, out)
		}
		return
	case *types.Array:
		// arrays inside elements are not supported; flagged by caller
		*out = append(*out, leafCell{path: path, typ: t})
		return
	}
	if mem == "" {
		mem = "M_" + typeKey(t)
	}
	*out = append(*out, leafCell{path: path, typ: t, mem: mem})
}

func pathFld(base string, path []int) string {
	f := base
	for _, i := range path {
		f = childFld(f, i)
	}
	return f
}

// bulkDefine creates a new version of every memory touched by elements of type elem,
// defined pointwise by cases. cases: list of (cond over p given cell path, source pointer term given p and path).
type bulkCase struct {
	cond func(p string, path []int) string
	val  func(p string, path []int, cell types.Type, mem string) string
}

func (vc *VC) bulkUpdate(st *State, elem types.Type, cases []bulkCase) {
	var cells []leafCell
	leafCells(elem, nil, &cells)
	// group by memory
	byMem := map[string][]leafCell{}
	var order []string
	for _, c := range cells {
		if _, isArr := c.typ.Underlying().(*types.Array); isArr {
			vc.errorf("bulk update of elements containing arrays unsupported (%s)", elem)
			return
		}
		name := c.mem
		vc.enc.registerMem(name, c.typ)
		if _, ok := byMem[name]; !ok {
			order = append(order, name)
		}
		byMem[name] = append(byMem[name], c)
	}
	for _, name := range order {
		cs := byMem[name]
		ct := cs[0].typ
		old := vc.memAtByName(st, name)
		nw := vc.decl(name, vc.enc.memSort(ct))
		body := fmt.Sprintf("(select %s p)", old)
		// build nested ite, last case first
		for i := len(cases) - 1; i >= 0; i-- {
			for j := len(cs) - 1; j >= 0; j-- {
				c := cs[j]
				cond := cases[i].cond("p", c.path)
				val := cases[i].val("p", c.path, c.typ, old)
				body = fmt.Sprintf("(ite %s %s %s)", cond, val, body)
			}
		}
		vc.emit(fmt.Sprintf("(assert (forall ((p Ptr)) (! (= (select %s p) %s) :pattern ((select %s p)))))", nw, body, nw))
		st.mem[name] = nw
	}
}

// ---- values ----

func (vc *VC) constVal(c *ssa.Const) Val {
	e := vc.enc
	t := c.Type()
	if c.Value == nil {
		return Val{T: e.zero(t), Typ: t}
	}
	switch u := t.Underlying().(type) {
	case *types.Basic:
		switch {
		case u.Info()&types.IsBoolean != 0:
			if constantBool(c) {
				return Val{T: "true", Typ: t}
			}
			return Val{T: "false", Typ: t}
		case u.Info()&types.IsInteger != 0:
			return Val{T: e.tlit(constBig(c.Value), t), Typ: t}
		case u.Info()&types.IsFloat != 0:
			return Val{T: e.floatLit(c.Value, u.Kind() == types.Float32), Typ: t}
		case u.Info()&types.IsString != 0:
			return Val{T: e.strLit(constString(c.Value)), Typ: t}
		}
	}
	vc.errorf("unsupported constant %s", c)
	return Val{T: e.zero(t), Typ: t}
}

func (vc *VC) value(fr *frame, n *Node, v ssa.Value) Val {
	switch v := v.(type) {
	case *ssa.Const:
		return vc.constVal(v)
	case *ssa.Global:
		id := vc.prog.globalID(v)
		vc.enc.notes[fmt.Sprintf("global %s = obj %d", v.Name(), id)] = true
		return Val{T: mkPtr(fmt.Sprint("(- ", -id, ")"), vc.enc.ilit(0), "0"), Typ: v.Type()}
	case *ssa.Function:
		name := fmt.Sprintf("fn!%d", vc.prog.fnID(v))
		vc.enc.addPre(name, fmt.Sprintf("(define-fun |%s| () Int %d)", name, 1000000+vc.prog.fnID(v)))
		vc.clos["|"+name+"|"] = &closureVal{fn: v}
		return Val{T: "|" + name + "|", Typ: v.Type()}
	case *ssa.Builtin:
		return Val{T: "0", Typ: v.Type()}
	}
	if x, ok := n.env[v]; ok {
		return x
	}
	vc.errorf("%s: value %s (%T) not in environment at block %d", fr.fn.Name(), v.Name(), v, n.blk.Index)
	return Val{T: vc.decl("undef", vc.enc.sortOf(v.Type())), Typ: v.Type()}
}

// ---- frame / graph construction ----

func findLoops(fn *ssa.Function) []*LoopInfo {
	var loops []*LoopInfo
	byHeader := map[*ssa.BasicBlock]*LoopInfo{}
	for _, b := range fn.Blocks {
		for _, s := range b.Succs {
			if s.Dominates(b) { // back edge b -> s
				li := byHeader[s]
				if li == nil {
					li = &LoopInfo{header: s, blocks: map[*ssa.BasicBlock]bool{s: true}}
					byHeader[s] = li
					loops = append(loops, li)
				}
				li.backPred = append(li.backPred, b)
				// natural loop body
				var stack []*ssa.BasicBlock
				if !li.blocks[b] {
					li.blocks[b] = true
					stack = append(stack, b)
				}
				for len(stack) > 0 {
					x := stack[len(stack)-1]
					stack = stack[:len(stack)-1]
					for _, p := range x.Preds {
						if !li.blocks[p] {
							li.blocks[p] = true
							stack = append(stack, p)
						}
					}
				}
			}
		}
	}
	sort.Slice(loops, func(i, j int) bool { return loops[i].header.Index < loops[j].header.Index })
	for i, l := range loops {
		l.ordinal = i + 1
	}
	// parents: smallest enclosing loop
	for _, l := range loops {
		for _, m := range loops {
			if m != l && m.blocks[l.header] {
				if l.parent == nil || len(m.blocks) < len(l.parent.blocks) {
					l.parent = m
				}
			}
		}
	}
	return loops
}

func (vc *VC) newFrame(fn *ssa.Function, fc *FuncContract, depth int) *frame {
	fr := &frame{fn: fn, fc: fc, depth: depth, dbg: collectDebug(fn)}
	fr.loops = findLoops(fn)
	if fc != nil {
		for _, lc := range fc.Loops {
			ok := false
			for _, l := range fr.loops {
				if l.ordinal == lc.Ordinal {
					l.contract = lc
					ok = true
				}
			}
			if !ok {
				vc.errorf("binding: %s has no loop %d", fn.Name(), lc.Ordinal)
			}
		}
	}
	return fr
}

func (fr *frame) innermostLoop(b *ssa.BasicBlock) *LoopInfo {
	var best *LoopInfo
	for _, l := range fr.loops {
		if l.blocks[b] && (best == nil || len(l.blocks) < len(best.blocks)) {
			best = l
		}
	}
	return best
}

// forceBounded: explore with every loop unrolled N times (counterexample search);
// obligations found this way are labelled bounded and never counted as proved.
var forceBounded = 0

func loopUnroll(l *LoopInfo, fc *FuncContract) int {
	if forceBounded > 0 {
		if l.parent == nil {
			return forceBounded
		}
		return 0 // nested loops stay cut (invariant / havoc)
	}
	if l.contract != nil && l.contract.Unroll > 0 {
		return l.contract.Unroll
	}
	if fc != nil && fc.Bounded > 0 && (l.contract == nil || len(l.contract.Invariants) == 0) {
		return fc.Bounded
	}
	return 0
}

// buildGraph expands the CFG: unrolled loops get one copy of their blocks per iteration.
func (vc *VC) buildGraph(fr *frame) {
	fn := fr.fn
	type key struct {
		b *ssa.BasicBlock
		k int
	}
	nodes := map[key]*Node{}
	// unroll factor per block: only innermost unrolled loop matters; nested unrolled loops unsupported
	unrollOf := func(b *ssa.BasicBlock) (*LoopInfo, int) {
		for l := fr.innermostLoop(b); l != nil; l = l.parent {
			if n := loopUnroll(l, fr.fc); n > 0 {
				return l, n
			}
		}
		return nil, 0
	}
	get := func(b *ssa.BasicBlock, k int) *Node {
		if n, ok := nodes[key{b, k}]; ok {
			return n
		}
		n := &Node{blk: b, copy: k, id: len(fr.nodes)}
		nodes[key{b, k}] = n
		fr.nodes = append(fr.nodes, n)
		return n
	}
	for _, b := range fn.Blocks {
		ul, N := unrollOf(b)
		copies := 1
		if ul != nil {
			copies = N
			// nested unrolled loops are not supported
			for l := fr.innermostLoop(b); l != nil && l != ul; l = l.parent {
				if loopUnroll(l, fr.fc) > 0 {
					vc.errorf("%s: nested unrolled loops unsupported", fn.Name())
				}
			}
		}
		for k := 0; k < copies; k++ {
			get(b, k)
		}
		if ul != nil && b == ul.header {
			get(b, N) // the final evaluation of the loop condition (exit only)
		}
	}
	predIndex := func(from, to *ssa.BasicBlock, nth int) int {
		c := 0
		for i, p := range to.Preds {
			if p == from {
				if c == nth {
					return i
				}
				c++
			}
		}
		return -1
	}
	for _, b := range fn.Blocks {
		ul, N := unrollOf(b)
		copies := 1
		if ul != nil {
			copies = N
		}
		if ul != nil && b == ul.header {
			copies = N + 1
		}
		seen := map[*ssa.BasicBlock]int{}
		for _, s := range b.Succs {
			nth := seen[s]
			seen[s]++
			pi := predIndex(b, s, nth)
			isBack := s.Dominates(b)
			sl, _ := unrollOf(s)
			for k := 0; k < copies; k++ {
				from := get(b, k)
				var to *Node
				e := &Edge{from: from, predIdx: pi}
				switch {
				case ul != nil && b == ul.header && k == N && ul.blocks[s] && !(isBack && s == ul.header):
					// one iteration too many: entering the body from the last header copy
					to = get(s, N+1)
					to.unwind = true
				case isBack && ul != nil && s == ul.header:
					// unrolled back edge: next header copy
					to = get(s, k+1)
				case isBack:
					// cut loop back edge
					// target: header copy in the same unroll context
					if sl != nil && sl == ul {
						to = get(s, k)
					} else {
						to = get(s, 0)
					}
					e.back = true
				case sl != nil && sl == ul:
					to = get(s, k) // same unrolled loop
				case sl != nil && sl != ul:
					to = get(s, 0) // entering an unrolled loop
				default:
					to = get(s, 0)
				}
				e.to = to
				from.succs = append(from.succs, e)
				to.preds = append(to.preds, e)
			}
		}
	}
	for _, l := range fr.loops {
		if loopUnroll(l, fr.fc) > 0 {
			continue
		}
		// cut loop: mark header nodes (all copies)
		for k, n := range nodes {
			if k.b == l.header && !n.unwind {
				n.loop = l
			}
		}
	}
}

func topoOrder(fr *frame) []*Node {
	indeg := map[*Node]int{}
	for _, n := range fr.nodes {
		for _, e := range n.preds {
			if !e.back {
				indeg[n]++
			}
		}
	}
	var order []*Node
	var ready []*Node
	for _, n := range fr.nodes {
		if indeg[n] == 0 {
			ready = append(ready, n)
		}
	}
	for len(ready) > 0 {
		// pick smallest (block index, copy) for determinism
		sort.Slice(ready, func(i, j int) bool {
			if ready[i].copy != ready[j].copy {
				return ready[i].copy < ready[j].copy
			}
			return ready[i].blk.Index < ready[j].blk.Index
		})
		n := ready[0]
		ready = ready[1:]
		order = append(order, n)
		for _, e := range n.succs {
			if e.back {
				continue
			}
			indeg[e.to]--
			if indeg[e.to] == 0 {
				ready = append(ready, e.to)
			}
		}
	}
	return order
}

// runBody encodes a function body. Returns the list of return points.
func (vc *VC) runBody(fr *frame, st0 *State, reach0 string) {
	vc.buildGraph(fr)
	if fr == vc.top {
		// ghost flags reached(k): the header of loop k has been reached on the path (set in loopHeader)
		for _, l := range fr.loops {
			name := fmt.Sprintf("calledloop.%d", l.ordinal)
			if vc.enc.mapMemSorts == nil {
				vc.enc.mapMemSorts = map[string]string{}
			}
			vc.enc.mapMemSorts[name] = "Bool"
			st0.mem[name] = "false"
		}
	}
	fr.entrySt = st0.clone()
	order := topoOrder(fr)
	if len(order) != len(fr.nodes) {
		vc.errorf("%s: irreducible control flow", fr.fn.Name())
	}
	for _, n := range order {
		vc.enterNode(fr, n, st0, reach0)
		if n.reach == "false" {
			n.done = true
			for _, e := range n.succs {
				e.cond = "false"
			}
			continue
		}
		vc.execNode(fr, n)
		n.done = true
	}
}

func (vc *VC) enterNode(fr *frame, n *Node, st0 *State, reach0 string) {
	e := vc.enc
	var in []*Edge
	for _, ed := range n.preds {
		if !ed.back && ed.cond != "false" {
			in = append(in, ed)
		}
	}
	if len(n.preds) == 0 && n.blk.Index != 0 {
		// a block without predecessors that is not the entry (the "recover" block of functions with defers):
		// only reached by a recovered panic, which the safety obligations exclude
		n.reach = "false"
		n.env = map[ssa.Value]Val{}
		n.st = st0.clone()
		return
	}
	if len(n.preds) == 0 || (n.blk.Index == 0 && n.copy == 0) {
		// function entry
		n.env = map[ssa.Value]Val{}
		for i, p := range fr.fn.Params {
			n.env[p] = fr.params[i]
		}
		for i, fv := range fr.fn.FreeVars {
			n.env[fv] = fr.freeVars[i]
		}
		n.st = st0.clone()
		n.reach = reach0
		return
	}
	if len(in) == 0 {
		n.reach = "false"
		n.env = map[ssa.Value]Val{}
		n.st = st0.clone()
		return
	}
	// reach
	var conds []string
	for _, ed := range in {
		conds = append(conds, ed.cond)
	}
	n.reach = vc.def(fmt.Sprintf("R.b%d.%d", n.blk.Index, n.copy), "Bool", or(conds...))
	// env merge
	if len(in) == 1 {
		n.env = make(map[ssa.Value]Val, len(in[0].from.env)+8)
		for k, v := range in[0].from.env {
			n.env[k] = v
		}
		n.st = in[0].from.st.clone()
	} else {
		n.env = map[ssa.Value]Val{}
		first := in[0].from.env
		// deterministic iteration order
		var keys []ssa.Value
		for k := range first {
			keys = append(keys, k)
		}
		sort.Slice(keys, func(i, j int) bool { return keys[i].Name() < keys[j].Name() })
		for _, k := range keys {
			v0 := first[k]
			same := true
			all := true
			for _, ed := range in[1:] {
				v, ok := ed.from.env[k]
				if !ok {
					all = false
					break
				}
				if v.T != v0.T {
					same = false
				}
			}
			if !all {
				continue
			}
			if same {
				n.env[k] = v0
				continue
			}
			if len(v0.Elems) > 0 {
				continue // tuples are consumed by Extract in the defining block
			}
			term := in[len(in)-1].from.env[k].T
			for i := len(in) - 2; i >= 0; i-- {
				term = fmt.Sprintf("(ite %s %s %s)", in[i].cond, in[i].from.env[k].T, term)
			}
			n.env[k] = Val{T: vc.def(k.Name()+".m", e.sortOf(k.Type()), term), Typ: v0.Typ}
		}
		// state merge
		n.st = &State{mem: map[string]string{}}
		{
			sameEp := true
			var eps []*Epoch
			var conds []string
			for _, ed := range in {
				eps = append(eps, ed.from.st.epoch)
				conds = append(conds, ed.cond)
				if ed.from.st.epoch != in[0].from.st.epoch {
					sameEp = false
				}
			}
			if sameEp {
				n.st.epoch = in[0].from.st.epoch
			} else {
				n.st.epoch = vc.newEpoch("merge", eps, conds)
			}
		}
		names := map[string]bool{}
		for _, ed := range in {
			for m := range ed.from.st.mem {
				names[m] = true
			}
		}
		for _, m := range sortedKeys(names) {
			t := e.mems[m]
			get := func(s *State) string {
				if v, ok := s.mem[m]; ok {
					return v
				}
				return vc.resolveEpoch(s.epoch, m, vc.memSortByName(m, t))
			}
			v0 := get(in[0].from.st)
			same := true
			for _, ed := range in[1:] {
				if get(ed.from.st) != v0 {
					same = false
				}
			}
			if same {
				n.st.mem[m] = v0
				continue
			}
			term := get(in[len(in)-1].from.st)
			for i := len(in) - 2; i >= 0; i-- {
				term = fmt.Sprintf("(ite %s %s %s)", in[i].cond, get(in[i].from.st), term)
			}
			n.st.mem[m] = vc.def(m, vc.memSortByName(m, t), term)
		}
		wm0 := in[0].from.st.wm
		same := true
		for _, ed := range in[1:] {
			if ed.from.st.wm != wm0 {
				same = false
			}
		}
		if same {
			n.st.wm = wm0
		} else {
			term := in[len(in)-1].from.st.wm
			for i := len(in) - 2; i >= 0; i-- {
				term = fmt.Sprintf("(ite %s %s %s)", in[i].cond, in[i].from.st.wm, term)
			}
			n.st.wm = vc.def("wm", "Int", term)
		}
	}
}

// memSortByName: memory sort for a registered memory (map memories have custom sorts).
func (vc *VC) memSortByName(name string, t types.Type) string {
	if s, ok := vc.enc.mapMemSorts[name]; ok {
		return s
	}
	return vc.enc.memSort(t)
}

func (vc *VC) pos(p token.Pos) string {
	if !p.IsValid() {
		return ""
	}
	ps := vc.prog.Fset.Position(p)
	return fmt.Sprintf("%s:%d", strings.TrimPrefix(ps.Filename, repoDir+"/"), ps.Line)
}
