package main

import (
	"fmt"
	"go/types"
	"strings"

	"golang.org/x/tools/go/ssa"
)

func (vc *VC) bindResult(n *Node, x ssa.Value, sig *types.Signature, vals []Val) {
	// remember the results of the (latest) call of each statically known callee: callres("F", k) in contracts
	if call, ok := x.(*ssa.Call); ok {
		if sc := call.Call.StaticCallee(); sc != nil && call.Parent() == vc.fn {
			if vc.callRes == nil {
				vc.callRes = map[string][]Val{}
				vc.callCount = map[string]int{}
			}
			vc.callRes[contractName(sc)] = vals
			if vc.callSt == nil {
				vc.callSt = map[string]*State{}
			}
			vc.callSt[contractName(sc)] = n.st.clone()
			vc.callCount[contractName(sc)]++
			// also by ordinal: "F#k" is the k-th call of F in the order the generator meets them (block order)
			vc.callRes[fmt.Sprintf("%s#%d", contractName(sc), vc.callCount[contractName(sc)])] = vals
			vc.callCount[fmt.Sprintf("%s#%d", contractName(sc), vc.callCount[contractName(sc)])] = 1
		}
	}
	switch len(vals) {
	case 0:
		n.env[x] = Val{Typ: x.Type()}
	case 1:
		n.env[x] = vals[0]
	default:
		n.env[x] = Val{Elems: vals, Typ: x.Type()}
	}
}

func (vc *VC) freshResults(n *Node, name string, sig *types.Signature) []Val {
	var out []Val
	for i := 0; i < sig.Results().Len(); i++ {
		t := sig.Results().At(i).Type()
		v := vc.decl(fmt.Sprintf("%s.r%d", name, i), vc.enc.sortOf(t))
		vc.assume(vc.enc.wellFormed(v, t, n.st.wm))
		out = append(out, Val{T: v, Typ: t})
	}
	return out
}

func (vc *VC) execCall(fr *frame, n *Node, x *ssa.Call) {
	c := &x.Call
	if b, ok := c.Value.(*ssa.Builtin); ok {
		vc.execBuiltin(fr, n, x, b)
		return
	}
	var args []Val
	for _, a := range c.Args {
		args = append(args, vc.value(fr, n, a))
	}
	sig := c.Signature()
	// the callee a clause can name: the static callee, or a local closure reached through the variable that holds it
	named := c.StaticCallee()
	if named == nil && !c.IsInvoke() {
		named = closureOrigin(c.Value)
	}
	if fr.fc != nil && len(fr.fc.CallSites) > 0 {
		if named != nil {
			vc.callSiteAsserts(fr, n, x, contractName(named), args)
		}
	}
	if fr.fc != nil && fr == vc.top {
		if named != nil {
			vc.mustCallMark(fr, n, x, contractName(named), args)
		}
	}
	if c.IsInvoke() {
		recv := vc.value(fr, n, c.Value)
		vc.safety(fr, n, "nil", "interface receiver is non-nil", x.Pos(), not(fmt.Sprintf("(= %s nil.iface)", recv.T)))
		name := c.Method.Name()
		if fr.fc != nil {
			// clauses about dynamic calls name them invoke.<Method>; $arg0 is the receiver
			iargs := append([]Val{recv}, args...)
			if len(fr.fc.CallSites) > 0 {
				vc.callSiteAsserts(fr, n, x, "invoke."+name, iargs)
			}
			if fr == vc.top {
				vc.mustCallMark(fr, n, x, "invoke."+name, iargs)
			}
		}
		if name == "Error" || name == "String" {
			vc.bindResult(n, x, sig, vc.freshResults(n, x.Name(), sig))
			return
		}
		ms := newModSet()
		vc.prog.callMods(c, ms, map[*ssa.Function]bool{}, vc.pos(x.Pos()))
		vc.havocMods(n, ms)
		rs := vc.freshResults(n, x.Name(), sig)
		// convention assumed of plug-in interfaces: a method returning (X, error) with X an interface or
		// pointer returns a non-nil X when the error is nil
		if len(rs) == 2 && isErrorType(rs[1].Typ) {
			switch rs[0].Typ.Underlying().(type) {
			case *types.Interface:
				vc.assume(fmt.Sprintf("(=> (= %s nil.iface) (not (= %s nil.iface)))", rs[1].T, rs[0].T))
				vc.enc.trusted["interface methods returning (value, error) return a non-nil value when the error is nil (convention assumed of plug-ins)"] = true
			case *types.Pointer:
				vc.assume(fmt.Sprintf("(=> (= %s nil.iface) (not (= (p.obj %s) 0)))", rs[1].T, rs[0].T))
				vc.enc.trusted["interface methods returning (value, error) return a non-nil value when the error is nil (convention assumed of plug-ins)"] = true
			}
		}
		vc.bindResult(n, x, sig, rs)
		if x.Parent() == vc.fn {
			// aftercall("invoke.M", e): the state right after the function's single dynamic call of method M
			if vc.callSt == nil {
				vc.callSt = map[string]*State{}
			}
			if vc.callRes == nil {
				vc.callRes = map[string][]Val{}
				vc.callCount = map[string]int{}
			}
			key := "invoke." + name
			vc.callSt[key] = n.st.clone()
			vc.callRes[key] = rs
			vc.callCount[key]++
		}
		return
	}
	callee := c.StaticCallee()
	var clo *closureVal
	if callee == nil || len(callee.FreeVars) > 0 {
		fv := vc.value(fr, n, c.Value)
		if cv, ok := vc.clos[fv.T]; ok {
			clo = cv
			callee = cv.fn
		}
	}
	if callee == nil {
		// package-level function variable assigned once, in the initialiser (test seam)
		if fn := vc.prog.globalFuncInit(c.Value); fn != nil {
			vc.prog.assumed["package-level function variables assigned only in the package initialiser keep that value"] = true
			callee = fn
		}
	}
	if callee == nil {
		_, isParam := c.Value.(*ssa.Parameter)
		pureVals := fr.fc != nil && fr.fc.Options["funcvalues"] == "pure"
		if vc.top != nil && vc.top.fc != nil && vc.top.fc.Options["funcvalues"] == "pure" {
			pureVals = true
		}
		if isParam || pureVals {
			p := c.Value
			// function-typed parameter: an uninterpreted pure function (listed assumption)
			vc.enc.notes[fmt.Sprintf("function value %s called in %s is treated as a pure function of its arguments", p.Name(), fr.fn.Name())] = true
			fv := vc.value(fr, n, c.Value)
			sorts := []string{"Int"}
			ts := []string{fv.T}
			for _, a := range args {
				sorts = append(sorts, vc.enc.sortOf(a.Typ))
				ts = append(ts, a.T)
			}
			var outs []Val
			for i := 0; i < sig.Results().Len(); i++ {
				rt := sig.Results().At(i).Type()
				fn := fmt.Sprintf("fapply.%s.%d", sigKey(sig), i)
				t := vc.enc.uf(fn, sorts, vc.enc.sortOf(rt), ts...)
				v := vc.def(x.Name(), vc.enc.sortOf(rt), t)
				vc.assume(vc.enc.wellFormed(v, rt, n.st.wm))
				outs = append(outs, Val{T: v, Typ: rt})
			}
			vc.bindResult(n, x, sig, outs)
			return
		}
		if fn := closureOrigin(c.Value); fn != nil {
			// a local closure reached through a captured variable that holds it (stored exactly once): the closure is
			// known, its bindings are not tracked here — effects by its mod-set, results unconstrained
			vc.havocMods(n, vc.prog.ModSetOf(fn))
			vc.enc.notes[fmt.Sprintf("closure %s called through a captured variable: effects by mod-set, result unconstrained", fn.Name())] = true
			vc.bindResult(n, x, sig, vc.freshResults(n, x.Name(), sig))
			return
		}
		ms := &ModSet{all: true}
		vc.havocMods(n, ms)
		vc.bindResult(n, x, sig, vc.freshResults(n, x.Name(), sig))
		return
	}
	if vc.libCall(fr, n, x, callee, args) {
		return
	}
	fc := vc.prog.ContractFor(callee)
	if fc != nil && !fc.Inline {
		vc.curClo = clo
		vc.callWithContract(fr, n, x, callee, fc, args)
		vc.curClo = nil
		return
	}
	if callee.Blocks != nil && (clo != nil || (fc != nil && fc.Inline) || vc.autoInline(callee)) && fr.depth < 6 {
		vc.inlineCall(fr, n, x, callee, clo, args)
		return
	}
	// no contract: effects by mod-set, unconstrained results
	ms := vc.prog.ModSetOf(callee)
	vc.havocMods(n, ms)
	if vc.prog.isFunctional(callee) {
		vc.bindResult(n, x, sig, vc.functionalCall(n, x, callee, args))
		return
	}
	if callee.Blocks != nil && strings.HasPrefix(callee.Pkg.Pkg.Path(), modPath) {
		vc.enc.notes[fmt.Sprintf("callee %s has no contract: result unconstrained, effects by mod-set", callee.String())] = true
	}
	vc.bindResult(n, x, sig, vc.freshResults(n, x.Name(), sig))
}

// autoInline: tiny loop-free pprof helpers are inlined even without an annotation.
func (vc *VC) autoInline(f *ssa.Function) bool {
	if f.Pkg == nil || !strings.HasPrefix(f.Pkg.Pkg.Path(), modPath) {
		return false
	}
	if len(f.Blocks) > 6 {
		return false
	}
	n := 0
	for _, b := range f.Blocks {
		for _, s := range b.Succs {
			if s.Dominates(b) {
				return false
			}
		}
		for _, in := range b.Instrs {
			if _, ok := in.(ssa.CallInstruction); ok {
				if _, isB := in.(ssa.CallInstruction).Common().Value.(*ssa.Builtin); !isB {
					return false
				}
			}
			n++
		}
	}
	return n <= 40
}

func (vc *VC) calleeResultNames(callee *ssa.Function, results []Val) map[string]Val {
	m := map[string]Val{}
	rs := callee.Signature.Results()
	for i := 0; i < rs.Len() && i < len(results); i++ {
		if nm := rs.At(i).Name(); nm != "" && nm != "_" {
			m[nm] = results[i]
		}
		m[fmt.Sprintf("result%d", i)] = results[i]
	}
	if len(results) == 1 {
		m["result"] = results[0]
	}
	return m
}

func (vc *VC) callWithContract(fr *frame, n *Node, x *ssa.Call, callee *ssa.Function, fc *FuncContract, args []Val) {
	sig := callee.Signature
	params := map[string]Val{}
	for i, p := range callee.Params {
		if i < len(args) {
			params[p.Name()] = args[i]
		}
	}
	clo := vc.curClo
	lk := func(name string) (Val, bool) {
		if v, ok := params[name]; ok {
			return v, true
		}
		// captured variables of a closure called with its contract: the cells bound at the MakeClosure
		if clo != nil && clo.fn == callee {
			for i, fv := range callee.FreeVars {
				if fv.Name() == name && i < len(clo.bindings) {
					if pt, ok := fv.Type().Underlying().(*types.Pointer); ok && isCellType(pt.Elem()) {
						return Val{T: clo.bindings[i].T, Typ: pt.Elem(), Cell: true}, true
					}
				}
			}
		}
		return Val{}, false
	}
	pre := n.st.clone()
	ctx := &SpecCtx{vc: vc, lookup: lk, st: n.st, oldSt: pre, oldLookup: lk, pkg: callee.Pkg.Pkg, fnName: callee.Name()}
	for k, rq := range fc.Requires {
		t, err := ctx.EvalBool(rq.E)
		if err != nil {
			vc.errorf("requires of %s at call: %v", fc.Name, err)
			continue
		}
		if fc.Extern {
			continue
		}
		o := vc.oblige("requires", fmt.Sprintf("call.%s.requires%s.b%d", fc.Name, labelOr(rq.Label, k), n.blk.Index), rq.Text, vc.pos(x.Pos()), n.reach, t)
		_ = o
		vc.assume(implies(n.reach, t))
	}
	if !fc.Pure {
		var ms *ModSet
		if callee.Blocks != nil {
			ms = vc.prog.ModSetOf(callee)
		} else {
			ms = newModSet()
			vc.prog.computeModSet(callee, ms, map[*ssa.Function]bool{})
		}
		// memories the closure writes only through its own captured variables: with the bindings known, only those
		// cells change
		var capCells map[string][]int
		if clo != nil && clo.fn == callee {
			capCells = vc.prog.capOnlyOf(callee)
		}
		if len(capCells) > 0 && !ms.all {
			ms2 := *ms
			ms2.cells = map[string]types.Type{}
			for k, v := range ms.cells {
				if _, only := capCells[k]; !only {
					ms2.cells[k] = v
				}
			}
			vc.havocMods(n, &ms2)
			for name, idxs := range capCells {
				t, ok := ms.cells[name]
				if !ok {
					continue
				}
				vc.enc.registerMem(name, t)
				cur := vc.memAtByName(n.st, name)
				for _, i := range idxs {
					if i >= len(clo.bindings) {
						continue
					}
					nv := vc.decl(name+".cap", vc.enc.sortOf(t))
					vc.assume(vc.enc.wellFormed(nv, t, n.st.wm))
					cur = fmt.Sprintf("(store %s %s %s)", cur, clo.bindings[i].T, nv)
				}
				n.st.mem[name] = vc.def(name, vc.memSortByName(name, t), cur)
			}
		} else {
			vc.havocMods(n, ms)
		}
	}
	results := vc.freshResults(n, x.Name(), sig)
	rn := vc.calleeResultNames(callee, results)
	lk2 := func(name string) (Val, bool) {
		if v, ok := rn[name]; ok {
			return v, true
		}
		return lk(name)
	}
	ctx2 := &SpecCtx{vc: vc, lookup: lk2, st: n.st, oldSt: pre, oldLookup: lk, pkg: callee.Pkg.Pkg, fnName: callee.Name()}
	for _, en := range fc.Ensures {
		if strings.Contains(en.Text, "atloop(") || strings.Contains(en.Text, "aftercall(") || strings.Contains(en.Text, "callres(") || strings.Contains(en.Text, "atiter(") {
			// postcondition about an internal program point of the callee: proved of the callee, of no use to callers
			continue
		}
		t, err := ctx2.EvalBool(en.E)
		if err != nil {
			vc.errorf("ensures of %s at call: %v", fc.Name, err)
			continue
		}
		vc.assume(implies(n.reach, t))
	}
	if fc.Extern {
		vc.enc.trusted[fmt.Sprintf("assumed contract on %s (%s)", callee.String(), fc.Trusted)] = true
	}
	vc.bindResult(n, x, sig, results)
}

func (vc *VC) inlineCall(fr *frame, n *Node, x *ssa.Call, callee *ssa.Function, clo *closureVal, args []Val) {
	outs, ok := vc.inlineBody(fr.depth, fr.goMods, n, callee, clo, args, x.Name(), vc.pos(x.Pos()))
	if !ok {
		vc.havocMods(n, &ModSet{all: true})
		vc.bindResult(n, x, callee.Signature, vc.freshResults(n, x.Name(), callee.Signature))
		return
	}
	vc.bindResult(n, x, callee.Signature, outs)
}

// inlineBody encodes the body of callee at the current point of node n and returns its results.
func (vc *VC) inlineBody(depth int, goMods *ModSet, n *Node, callee *ssa.Function, clo *closureVal, args []Val, name, pos string) ([]Val, bool) {
	fc := vc.prog.ContractFor(callee)
	sub := vc.newFrame(callee, fc, depth+1)
	sub.params = args
	if clo != nil {
		sub.freeVars = clo.bindings
	}
	if len(callee.FreeVars) != len(sub.freeVars) {
		vc.errorf("%s: closure %s called without bindings", pos, callee.Name())
		return nil, false
	}
	sub.goMods = goMods
	vc.runBody(sub, n.st, n.reach)
	if len(sub.rets) == 0 {
		// callee never returns (always panics): the rest of this node is unreachable
		vc.assume(not(n.reach))
		return vc.freshResults(n, name, callee.Signature), true
	}
	var conds []string
	var states []*State
	for _, r := range sub.rets {
		conds = append(conds, r.reach)
		states = append(states, r.st)
	}
	n.st = vc.mergeStates(conds, states)
	// the call returns normally iff one return point is reached
	vc.assume(implies(n.reach, or(conds...)))
	nres := callee.Signature.Results().Len()
	var outs []Val
	for i := 0; i < nres; i++ {
		rt := callee.Signature.Results().At(i).Type()
		term := sub.rets[len(sub.rets)-1].results[i].T
		for k := len(sub.rets) - 2; k >= 0; k-- {
			if sub.rets[k].results[i].T != term {
				term = fmt.Sprintf("(ite %s %s %s)", sub.rets[k].reach, sub.rets[k].results[i].T, term)
			}
		}
		v := vc.def(name, vc.enc.sortOf(rt), term)
		outs = append(outs, Val{T: v, Typ: rt})
		if cv, ok := vc.clos[term]; ok {
			vc.clos[v] = cv
		}
	}
	return outs, true
}

func (vc *VC) mergeStates(conds []string, states []*State) *State {
	if len(states) == 1 {
		return states[0].clone()
	}
	out := &State{mem: map[string]string{}}
	sameEp := true
	var eps []*Epoch
	for _, s := range states {
		eps = append(eps, s.epoch)
		if s.epoch != states[0].epoch {
			sameEp = false
		}
	}
	if sameEp {
		out.epoch = states[0].epoch
	} else {
		out.epoch = vc.newEpoch("merge", eps, conds)
	}
	names := map[string]bool{}
	for _, s := range states {
		for m := range s.mem {
			names[m] = true
		}
	}
	for _, m := range sortedKeys(names) {
		t := vc.enc.mems[m]
		sort := vc.memSortByName(m, t)
		get := func(s *State) string {
			if v, ok := s.mem[m]; ok {
				return v
			}
			return vc.resolveEpoch(s.epoch, m, sort)
		}
		v0 := get(states[0])
		same := true
		for _, s := range states[1:] {
			if get(s) != v0 {
				same = false
			}
		}
		if same {
			out.mem[m] = v0
			continue
		}
		term := get(states[len(states)-1])
		for i := len(states) - 2; i >= 0; i-- {
			term = fmt.Sprintf("(ite %s %s %s)", conds[i], get(states[i]), term)
		}
		out.mem[m] = vc.def(m, sort, term)
	}
	wm0 := states[0].wm
	same := true
	for _, s := range states[1:] {
		if s.wm != wm0 {
			same = false
		}
	}
	if same {
		out.wm = wm0
	} else {
		term := states[len(states)-1].wm
		for i := len(states) - 2; i >= 0; i-- {
			term = fmt.Sprintf("(ite %s %s %s)", conds[i], states[i].wm, term)
		}
		out.wm = vc.def("wm", "Int", term)
	}
	return out
}

func (vc *VC) execBuiltin(fr *frame, n *Node, x *ssa.Call, b *ssa.Builtin) {
	e := vc.enc
	var args []Val
	for _, a := range x.Call.Args {
		args = append(args, vc.value(fr, n, a))
	}
	st := n.st
	switch b.Name() {
	case "len", "cap":
		a := args[0]
		switch u := a.Typ.Underlying().(type) {
		case *types.Slice:
			if b.Name() == "len" {
				vc.defVal(n, x, sLen(a.T))
			} else {
				vc.defVal(n, x, sCap(a.T))
			}
		case *types.Basic:
			vc.defVal(n, x, fmt.Sprintf("(strlen %s)", a.T))
		case *types.Map:
			vc.defVal(n, x, vc.mapLen(st, u, a.T))
		case *types.Array:
			vc.defVal(n, x, e.ilit(u.Len()))
		case *types.Pointer:
			vc.defVal(n, x, e.ilit(u.Elem().Underlying().(*types.Array).Len()))
		case *types.Chan:
			vc.havocVal(n, x, st)
		default:
			vc.errorf("len of %s", a.Typ)
		}
	case "append":
		vc.execAppend(fr, n, x, args)
	case "copy":
		dst, src := args[0], args[1]
		var nn string
		if isString(src.Typ) {
			vc.errorf("%s: copy from string unsupported", vc.pos(x.Pos()))
			vc.havocVal(n, x, st)
			return
		}
		ls, ld := sLen(src.T), sLen(dst.T)
		nn = vc.def("copy.n", e.I(), fmt.Sprintf("(ite %s %s %s)", e.slt(ls, ld), ls, ld))
		elem := dst.Typ.Underlying().(*types.Slice).Elem()
		vc.copyElems(st, elem, dst.T, e.ilit(0), src.T, e.ilit(0), nn, "true")
		vc.bind(n, x, nn)
	case "delete":
		mt := args[0].Typ.Underlying().(*types.Map)
		vc.mapDelete(st, mt, args[0].T, args[1].T)
	case "min", "max":
		t := x.Type()
		cur := args[0].T
		for _, a := range args[1:] {
			var lt string
			var err error
			if b.Name() == "min" {
				lt, err = e.binop(tokLSS, a.T, cur, t, t)
			} else {
				lt, err = e.binop(tokLSS, cur, a.T, t, t)
			}
			if err != nil {
				vc.errorf("%v", err)
			}
			cur = fmt.Sprintf("(ite %s %s %s)", lt, a.T, cur)
		}
		vc.defVal(n, x, cur)
	case "print", "println", "close", "clear":
		if b.Name() == "clear" {
			if mt, ok := args[0].Typ.Underlying().(*types.Map); ok {
				// clear(m): the map object keeps its identity and becomes empty (a nil map stays nil)
				vc.mapInit(st, mt, args[0].T)
			} else {
				vc.errorf("clear of a slice unsupported")
			}
		}
	case "recover":
		vc.havocVal(n, x, st)
	default:
		vc.errorf("%s: builtin %s unsupported", vc.pos(x.Pos()), b.Name())
	}
}

// copyElems: dst[doff+j] = src[soff+j] for 0 <= j < n (memmove semantics), under guard.
func (vc *VC) copyElems(st *State, elem types.Type, dst, doff, src, soff, n, guard string) {
	e := vc.enc
	vc.bulkUpdate(st, elem, []bulkCase{vc.rangeCase(guard, dst, doff, e.add(doff, n), func(j string, path []int, cell types.Type, mem string) string {
		return fmt.Sprintf("(select %s %s)", mem, vc.pathPtr(e.elemPtr(src, e.add(soff, e.sub(j, doff))), path))
	})})
}

// pathPtr: pointer to the cell at field path `path` inside the element p points to.
func (vc *VC) pathPtr(p string, path []int) string {
	for _, i := range path {
		p = vc.enc.fieldPtr(p, i)
	}
	return p
}

// rangeCase: cells of elements lo <= j < hi of slice dst (j relative to dst's offset).
func (vc *VC) rangeCase(guard, dst, lo, hi string, val func(j string, path []int, cell types.Type, mem string) string) bulkCase {
	e := vc.enc
	return bulkCase{
		cond: func(p string, path []int) string {
			j := e.sub("(p.idx "+p+")", sOff(dst))
			return and(guard, fmt.Sprintf("(= (p.obj %s) %s)", p, sArr(dst)), fmt.Sprintf("(= (p.fld %s) %s)", p, pathFld(sFld(dst), path)),
				e.sle(lo, j), e.slt(j, hi))
		},
		val: func(p string, path []int, cell types.Type, mem string) string {
			j := e.sub("(p.idx "+p+")", sOff(dst))
			return val(j, path, cell, mem)
		},
	}
}

func (vc *VC) execAppend(fr *frame, n *Node, x *ssa.Call, args []Val) {
	e := vc.enc
	st := n.st
	s, t := args[0], args[1]
	elem := s.Typ.Underlying().(*types.Slice).Elem()
	var tl string
	if isString(t.Typ) {
		// append([]byte, string...): contents abstract
		tl = fmt.Sprintf("(strlen %s)", t.T)
		vc.enc.notes["append([]byte, string...): appended byte k is s[k]"] = true
	} else {
		tl = sLen(t.T)
	}
	newLen := vc.def("app.len", e.I(), e.add(sLen(s.T), tl))
	inPlace := vc.def("app.inplace", "Bool", e.sle(newLen, sCap(s.T)))
	obj := vc.def("obj."+x.Name(), "Int", fmt.Sprintf("(+ %s 1)", st.wm))
	st.wm = obj
	newCap := vc.decl("app.cap", e.I())
	vc.assume(and(e.sle(newLen, newCap), e.sle(newCap, e.ilit(1<<40))))
	// read the appended elements before memory changes (single-element fast path)
	single := tl == "1"
	var v0 string
	if single {
		v0 = vc.def("app.v", e.sortOf(elem), vc.load(st, e.elemPtr(t.T, "0"), elem))
	}
	fresh := fmt.Sprintf("(mk-slice %s 0 %s %s 0)", obj, newLen, newCap)
	inpl := fmt.Sprintf("(mk-slice %s %s %s %s %s)", sArr(s.T), sOff(s.T), newLen, sCap(s.T), sFld(s.T))
	res := vc.def(x.Name(), "Slice", fmt.Sprintf("(ite %s %s %s)", inPlace, inpl, fresh))
	vc.bind(n, x, res)
	// prefix copy on reallocation
	prefix := vc.rangeCase(not(inPlace), fresh, "0", sLen(s.T), func(j string, path []int, cell types.Type, mem string) string {
		return fmt.Sprintf("(select %s %s)", mem, vc.pathPtr(e.elemPtr(s.T, j), path))
	})
	pre := st.clone()
	defer vc.appendPrefixLemma(pre, st, elem, s.T, res)
	switch {
	case isString(t.Typ):
		vc.bulkUpdate(st, elem, []bulkCase{
			vc.rangeCase("true", res, sLen(s.T), newLen, func(j string, path []int, cell types.Type, mem string) string {
				return e.uf("strat", []string{"Str", e.I()}, e.sortOf(cell), t.T, e.sub(j, sLen(s.T)))
			}), prefix})
	case single:
		vc.bulkUpdate(st, elem, []bulkCase{prefix})
		vc.store(st, e.elemPtr(res, sLen(s.T)), elem, v0)
	default:
		vc.bulkUpdate(st, elem, []bulkCase{
			vc.rangeCase("true", res, sLen(s.T), newLen, func(j string, path []int, cell types.Type, mem string) string {
				return fmt.Sprintf("(select %s %s)", mem, vc.pathPtr(e.elemPtr(t.T, e.sub(j, sLen(s.T))), path))
			}), prefix})
	}
}

// appendPrefixLemma states, in idx-triggered form, a consequence of the definition of
// append: the first len(s) elements of the result equal the elements of s. It is
// redundant (implied by the bulk definition) and only helps quantifier instantiation.
func (vc *VC) appendPrefixLemma(pre, post *State, elem types.Type, s, res string) {
	e := vc.enc
	var cells []leafCell
	leafCells(elem, nil, &cells)
	var eqs []string
	for _, c := range cells {
		if _, isArr := c.typ.Underlying().(*types.Array); isArr {
			return
		}
		vc.enc.registerMem(c.mem, c.typ)
		a := fmt.Sprintf("(select %s %s)", vc.memAtByName(post, c.mem), vc.pathPtr(e.elemPtr(res, "j"), c.path))
		b := fmt.Sprintf("(select %s %s)", vc.memAtByName(pre, c.mem), vc.pathPtr(e.elemPtr(s, "j"), c.path))
		eqs = append(eqs, fmt.Sprintf("(= %s %s)", a, b))
	}
	vc.emit(fmt.Sprintf("(assert (forall ((j Int)) (! (=> (and (<= 0 j) (< j %s)) %s) :pattern (%s))))", sLen(s), and(eqs...), e.elemPtr(res, "j")))
}

// ---- spec functions ----

func (vc *VC) findSpec(name string, pkg *types.Package) *SpecFunc {
	if pkg != nil {
		if cf := vc.prog.Contracts[pkg.Path()]; cf != nil {
			if sf, ok := cf.Specs[name]; ok {
				return sf
			}
		}
	}
	for _, cf := range vc.prog.Contracts {
		if sf, ok := cf.Specs[name]; ok {
			return sf
		}
	}
	return nil
}

// specPkg: the package in whose scope a spec function's types and body are resolved.
func (c *SpecCtx) specPkg(sf *SpecFunc) *types.Package {
	if sf.Pkg != "" {
		if sp := c.vc.prog.SSAPkgs[sf.Pkg]; sp != nil {
			return sp.Pkg
		}
	}
	return c.pkg
}

func (c *SpecCtx) applySpec(sf *SpecFunc, argExprs []Expr) Val {
	if len(argExprs) != len(sf.Params) {
		c.fail("spec function %s: want %d args, got %d", sf.Name, len(sf.Params), len(argExprs))
	}
	enc := c.enc()
	callerPkg := c.pkg
	defer func() { c.pkg = callerPkg }()
	spkg := c.specPkg(sf)
	var args []Val
	for i, a := range argExprs {
		c.pkg = spkg
		pt := c.resolveType(sf.Params[i].T)
		c.pkg = callerPkg
		v := c.eval(a)
		if v.isConst() {
			v = c.materialize(v, pt)
		}
		if v.T == "nil" && v.Typ == types.Typ[types.UntypedNil] {
			v = Val{T: enc.zero(pt), Typ: pt}
		}
		if enc.sortOf(v.Typ) != enc.sortOf(pt) {
			c.fail("spec function %s: argument %d has type %s, want %s", sf.Name, i, v.Typ, pt)
		}
		args = append(args, Val{T: v.T, Typ: pt})
	}
	c.pkg = spkg
	rt := c.resolveType(sf.Result)
	if sf.Body == nil {
		// uninterpreted
		var sorts, ts []string
		for _, a := range args {
			sorts = append(sorts, enc.sortOf(a.Typ))
			ts = append(ts, a.T)
		}
		name := "spec." + sf.Name
		t := enc.uf(name, sorts, enc.sortOf(rt), ts...)
		return Val{T: t, Typ: rt}
	}
	if (!specMacroMode && !sf.Macro) || sf.Decreases != nil {
		return c.applyFnSpec(sf, args, rt)
	}
	// macro expansion
	saved := c.bound
	nb := map[string]Val{}
	for k, v := range saved {
		nb[k] = v
	}
	for i, p := range sf.Params {
		nb[p.Name] = args[i]
	}
	c.bound = nb
	v := c.eval(sf.Body)
	c.bound = saved
	v = c.materialize(v, rt)
	return Val{T: v.T, Typ: rt}
}

// specMacroMode: expand non-recursive spec functions inline (used when searching for
// counterexamples); otherwise every spec function is an SMT function with a
// definitional axiom, which keeps proofs by congruence cheap.
var specMacroMode = false

// applyFnSpec: spec function as an SMT function; the memories it reads become
// extra parameters so that it can be applied in any state.
func (c *SpecCtx) applyFnSpec(sf *SpecFunc, args []Val, rt types.Type) Val {
	enc := c.enc()
	vc := c.vc
	name := "spec." + sf.Name
	info, ok := vc.recSpecs[sf.Name]
	if !ok {
		info = &recSpecInfo{}
		vc.recSpecs[sf.Name] = info
		var body Val
		var pdecls, pnames []string
		for pass := 0; pass < 2; pass++ {
			// evaluate the body in a state whose memories are formal parameters
			formalSt := &State{mem: map[string]string{}, wm: "wm@entry", epoch: &Epoch{kind: "formal", resolved: map[string]string{}}}
			if pass == 1 {
				for _, m := range info.mems {
					formalSt.epoch.resolved[m] = "|fm." + m + "|"
				}
			}
			pdecls, pnames = nil, nil
			nb := map[string]Val{}
			for _, p := range sf.Params {
				pt := c.resolveType(p.T)
				q := "|sp." + p.Name + "|"
				nb[p.Name] = Val{T: q, Typ: pt}
				pdecls = append(pdecls, fmt.Sprintf("(%s %s)", q, enc.sortOf(pt)))
				pnames = append(pnames, q)
			}
			sub := &SpecCtx{vc: vc, lookup: func(string) (Val, bool) { return Val{}, false }, st: formalSt, pkg: c.pkg, bound: nb}
			info.inProgress = true
			info.formalSt = formalSt
			body = sub.materialize(sub.eval(sf.Body), rt)
			info.inProgress = false
			info.mems = sortedKeys(formalSt.epoch.resolved)
		}
		var mdecls, msorts, mnames []string
		for _, m := range info.mems {
			srt := vc.memSortByName(m, enc.mems[m])
			mdecls = append(mdecls, fmt.Sprintf("(|fm.%s| %s)", m, srt))
			msorts = append(msorts, srt)
			mnames = append(mnames, "|fm."+m+"|")
		}
		var psorts []string
		for _, p := range sf.Params {
			psorts = append(psorts, enc.sortOf(c.resolveType(p.T)))
		}
		allDecls := append(mdecls, pdecls...)
		allNames := append(mnames, pnames...)
		decl := fmt.Sprintf("(declare-fun %s (%s) %s)", name, strings.Join(append(msorts, psorts...), " "), enc.sortOf(rt))
		if sf.Decreases != nil && len(allNames) > 0 {
			// "limited" twin: recursive occurrences in the body refer to it, and it has no
			// unfolding axiom of its own, so E-matching unfolds each written occurrence once
			// (no matching loop); f and its twin are equal.
			app := "(" + name + " " + strings.Join(allNames, " ") + ")"
			lim := "(" + name + ".lim " + strings.Join(allNames, " ") + ")"
			decl += fmt.Sprintf("\n(declare-fun %s.lim (%s) %s)", name, strings.Join(append(msorts, psorts...), " "), enc.sortOf(rt))
			decl += fmt.Sprintf("\n(assert (forall (%s) (! (= %s %s) :pattern (%s))))", strings.Join(allDecls, " "), app, lim, app)
		}
		if len(allNames) == 0 {
			decl += fmt.Sprintf("\n(assert (= %s %s))", name, body.T)
		} else {
			app := "(" + name + " " + strings.Join(allNames, " ") + ")"
			decl += fmt.Sprintf("\n(assert (forall (%s) (! (= %s %s) :pattern (%s))))", strings.Join(allDecls, " "), app, body.T, app)
		}
		enc.addPre("fnspec:"+sf.Name, decl)
	}
	var ts []string
	if info.inProgress {
		// recursive occurrence inside its own body: pass the formal memories through
		for _, m := range sortedKeys(info.formalSt.epoch.resolved) {
			ts = append(ts, info.formalSt.epoch.resolved[m])
		}
		if sf.Decreases != nil {
			name = name + ".lim"
		}
	} else {
		for _, m := range info.mems {
			ts = append(ts, vc.memAtByName(c.st, m))
		}
	}
	for _, a := range args {
		ts = append(ts, a.T)
	}
	if len(ts) == 0 {
		return Val{T: name, Typ: rt}
	}
	return Val{T: "(" + name + " " + strings.Join(ts, " ") + ")", Typ: rt}
}

type recSpecInfo struct {
	mems       []string
	inProgress bool
	formalSt   *State
	recCalls   int
}

func (vc *VC) memAtByName(st *State, name string) string {
	if v, ok := st.mem[name]; ok {
		return v
	}
	return vc.resolveEpoch(st.epoch, name, vc.memSortByName(name, vc.enc.mems[name]))
}

// callSiteAsserts: `callsite <callee> expr` clauses of the enclosing function: obligations at this call.
// Names resolve to parameters, $argN (the call's arguments) and the nearest dominating phi carrying that source name.
func (vc *VC) callSiteAsserts(fr *frame, n *Node, x *ssa.Call, callee string, args []Val) {
	for _, cs := range fr.fc.CallSites {
		if cs.Callee != callee {
			continue
		}
		cs.Hits++
		lookup := vc.nodeLookup(fr, n, x, args)
		entryLookup := func(name string) (Val, bool) { return vc.paramLookup(fr, name) }
		ctx := &SpecCtx{vc: vc, lookup: lookup, st: n.st, oldSt: fr.entrySt, oldLookup: entryLookup, pkg: fr.fn.Pkg.Pkg, fnName: fr.fn.Name(), fr: fr, loop: fr.innermostLoop(n.blk)}
		t, err := ctx.EvalBool(cs.C.E)
		if err != nil {
			// the clause mentions a variable that is not in scope at this call (e.g. a loop local, for a call after
			// the loop): it does not apply here; a clause that applies to no call at all is a binding failure
			cs.C.Skipped++
			vc.enc.notes[fmt.Sprintf("callsite clause %q does not apply to the call of %s at %s (%v)", truncate(cs.C.Text, 40), callee, vc.pos(x.Pos()), err)] = true
			continue
		}
		cs.C.Applied++
		vc.oblige("assert", fmt.Sprintf("callsite.%s%s.b%d", callee, labelOr(cs.C.Label, 0), n.blk.Index), cs.C.Text, vc.pos(x.Pos()), n.reach, t)
	}
}

// nodeLookup resolves source-level names at a program point: node n, before instruction x (nil: at the end of the
// block). $argN are the arguments of the call at x; parameters; the nearest dominating phi carrying the name; other
// named locals through debug references (the latest definition that dominates the point).
func (vc *VC) nodeLookup(fr *frame, n *Node, x *ssa.Call, args []Val) func(string) (Val, bool) {
return func(name string) (Val, bool) {
		if strings.HasPrefix(name, "$arg") {
			var k int
			if _, err := fmt.Sscanf(name[4:], "%d", &k); err == nil && k >= 0 && k < len(args) {
				return args[k], true
			}
			return Val{}, false
		}
		if v, ok := vc.paramLookup(fr, name); ok {
			return v, true
		}
		// the closest dominating phi carrying the name (a loop-carried or merged variable)
		var phiVal Val
		var phiBlk *ssa.BasicBlock
	phis:
		for b := n.blk; b != nil; b = b.Idom() {
			for _, in := range b.Instrs {
				phi, ok := in.(*ssa.Phi)
				if !ok {
					break
				}
				if phi.Comment == name {
					if v, ok := n.env[phi]; ok {
						phiVal, phiBlk = v, b
						break phis
					}
				}
			}
		}
		if v, ok := vc.allocLocal(fr, n, n.blk, n.st, name); ok {
			return v, true
		}
		// other named locals through debug references: the latest definition that dominates the call
		if fr.dbg != nil {
			var best *ssa.DebugRef
			for obj, drs := range fr.dbg.byObj {
				if obj.Name() != name {
					continue
				}
				for _, dr := range drs {
					if dr.IsAddr {
						continue
					}
					// the reference itself (not the value it names) must lie before the point
					db := dr.Block()
					if db == nil {
						continue
					}
					if !(db == n.blk && (x == nil || instrPos(dr) < instrPos(x))) && !(db != n.blk && db.Dominates(n.blk)) {
						continue
					}
					if _, ok := n.env[dr.X]; !ok {
						continue
					}
					if best == nil {
						best = dr
						continue
					}
					bb, cb := best.Block(), dr.Block()
					if (bb != cb && bb.Dominates(cb)) || (bb == cb && instrPos(dr) > instrPos(best)) {
						best = dr
					}
				}
			}
			// a plain definition closer to the point than the phi wins (another variable of the same name declared
			// later, or a reassignment that dominates the point); otherwise the phi is the variable's current value
			if phiBlk != nil {
				useDef := false
				if best != nil {
					if db := best.Block(); db == phiBlk || phiBlk.Dominates(db) {
						useDef = true
					}
				}
				if !useDef {
					return phiVal, true
				}
			}
			if best != nil {
				v := n.env[best.X]
				if best.IsAddr {
					// a local kept in memory (its address is taken): the name denotes the current content of the cell
					pt, ok := v.Typ.Underlying().(*types.Pointer)
					if !ok {
						return Val{}, false
					}
					return Val{T: vc.load(n.st, v.T, pt.Elem()), Typ: pt.Elem()}, true
				}
				return v, true
			}
		}
		if phiBlk != nil {
			return phiVal, true
		}
		return Val{}, false
	}
}

// instrPos: index of an instruction inside its block (-1 when it has none)
func instrPos(in ssa.Instruction) int {
	if in == nil || in.Block() == nil {
		return -1
	}
	for i, x := range in.Block().Instrs {
		if x == in {
			return i
		}
	}
	return -1
}
