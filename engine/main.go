package main

import (
	"fmt"
	"regexp"
	"os"
	"sort"
	"strings"
	"sync"
)

func usage() {
	fmt.Fprintln(os.Stderr, `usage:
  pverif check <Cxx> [--tier quick|thorough]
  pverif fn <pkg-rel> <contract-name> [--dump <obligation>] [--timeout N]
  pverif selftest [Cxx...]
  pverif replay <file>`)
	os.Exit(2)
}

func main() {
	defer cleanupScratch()
	if len(os.Args) < 2 {
		usage()
	}
	switch os.Args[1] {
	case "fn":
		os.Exit(cmdFn(os.Args[2:]))
	case "sweep":
		os.Exit(cmdSweep(os.Args[2:]))
	case "static":
		// pverif static <kind> <pkgrel> k=v ... : run one static obligation kind ad hoc (development aid)
		prog, err := LoadProg([]string{os.Args[3]})
		if err != nil {
			fmt.Fprintln(os.Stderr, err)
			os.Exit(2)
		}
		sc := StaticCheck{Kind: os.Args[2], Pkg: os.Args[3], Name: os.Args[2], Args: map[string]string{}}
		for _, kv := range os.Args[4:] {
			if i := strings.Index(kv, "="); i > 0 {
				sc.Args[kv[:i]] = kv[i+1:]
			}
		}
		r := runStatic(prog, sc)
		fmt.Printf("%d obligations, %d discharged\n", r.Obligations, r.Discharged)
		for _, f := range r.Failures {
			fmt.Println("FAIL", f)
		}
		for _, t := range r.Trusted {
			fmt.Println("trusted:", t)
		}
		for _, sm := range r.Samples {
			fmt.Println("sample:", sm)
		}
		fmt.Println("detail:", r.Detail)
		os.Exit(0)
	case "modset":
		prog, err := LoadProg([]string{os.Args[2]})
		if err != nil {
			fmt.Fprintln(os.Stderr, err)
			os.Exit(2)
		}
		fn := prog.FindFunc(modPath+"/"+os.Args[2], os.Args[3])
		if fn == nil {
			fmt.Println("not found")
			os.Exit(2)
		}
		ms := prog.ModSetOf(fn)
		fmt.Println("all:", ms.all, "unknown:", ms.unknown)
		fmt.Println("cells:", sortedKeys(ms.cells))
		fmt.Println("fresh:", sortedKeys(ms.fresh))
		fmt.Println("capOnly:", prog.capOnlyOf(fn))
		for _, k := range sortedKeys(ms.sites) {
			fmt.Println(" ", k, ms.sites[k])
		}
		os.Exit(0)
	case "check":
		code := cmdCheck(os.Args[2:])
		cleanupScratch()
		os.Exit(code)
	case "selftest":
		code := cmdSelftest(os.Args[2:])
		cleanupScratch()
		os.Exit(code)
	case "replay":
		code := cmdReplay(os.Args[2:])
		cleanupScratch()
		os.Exit(code)
	default:
		usage()
	}
}

// runObligations discharges all obligations in parallel.
func runObligations(obls []*Obligation, timeoutS int, par int) {
	var wg sync.WaitGroup
	sem := make(chan struct{}, par)
	for _, o := range obls {
		wg.Add(1)
		go func(o *Obligation) {
			defer wg.Done()
			sem <- struct{}{}
			defer func() { <-sem }()
			q := o.vc.Query(o, true)
			o.Query = q
			if o.Kind == "cover" {
				// vacuity guard: first look for a tiny witness (all slices empty), then the general query
				if r := Solve(tinyWorld(q), 3, []string{"z3-new"}, false); r.Status == "sat" {
					o.Result = r
					return
				}
				o.Result = Solve(q, 5, nil, false)
				return
			}
			// stage 1: one fast solver; stage 2: the full portfolio
			r := Solve(q, 2, []string{"z3-new"}, false)
			if r.Status != "unsat" && r.Status != "sat" {
				r = Solve(q, timeoutS, nil, false)
			}
			if r.Status != "unsat" && r.Status != "sat" && !o.ExpectFail {
				// last resort: prove the goal by cases (old elements / new element)
				if qs := splitQueries(o); qs != nil {
					all := true
					total := 0.0
					for _, cq := range qs {
						cr := Solve(cq, timeoutS, nil, false)
						total += cr.TimeS
						if cr.Status != "unsat" {
							all = false
							break
						}
					}
					if all {
						r = &SolveResult{Status: "unsat", Solver: "portfolio (case split on the range bound)", TimeS: total}
					}
				}
			}
			o.Result = r
		}(o)
	}
	wg.Wait()
}

func cmdFn(args []string) int {
	if len(args) < 2 {
		usage()
	}
	pkg, name := args[0], args[1]
	dump := ""
	timeout := 10
	for i := 2; i < len(args); i++ {
		switch args[i] {
		case "--dump":
			i++
			dump = args[i]
		case "--timeout":
			i++
			fmt.Sscanf(args[i], "%d", &timeout)
		case "--macro":
			specMacroMode = true
		case "--bounded":
			i++
			fmt.Sscanf(args[i], "%d", &forceBounded)
		case "--replay":
			wantReplay = true
		}
	}
	prog, err := LoadProg([]string{pkg})
	if err != nil {
		fmt.Fprintln(os.Stderr, err)
		return 2
	}
	path := modPath + "/" + pkg
	cf := prog.Contracts[path]
	if cf == nil {
		fmt.Fprintf(os.Stderr, "no contract file for %s\n", path)
		return 2
	}
	var vc *VC
	if strings.HasPrefix(name, "lemma:") {
		l := cf.Lemmas[strings.TrimPrefix(name, "lemma:")]
		if l == nil {
			fmt.Fprintf(os.Stderr, "no lemma %s\n", name)
			return 2
		}
		vc = GenLemma(prog, prog.SSAPkgs[path], l, "lemma."+l.Name)
	} else {
		fc := cf.Funcs[name]
		if fc == nil {
			fmt.Fprintf(os.Stderr, "no contract for %s\n", name)
			return 2
		}
		fn := prog.FindFunc(path, name)
		if fn == nil {
			fmt.Fprintf(os.Stderr, "function %s not found\n", name)
			return 2
		}
		vc = GenFunc(prog, fn, fc)
	}
	for _, e := range vc.errs {
		fmt.Println("ERROR:", e)
	}
	if dump != "" {
		for _, o := range vc.obls {
			if strings.Contains(o.Name, dump) {
				fmt.Println(vc.Query(o, true))
				return 0
			}
		}
		fmt.Println("no such obligation")
		return 1
	}
	runObligations(vc.obls, timeout, 16)
	bad := 0
	for _, o := range vc.obls {
		ok := o.Result.Status == "unsat"
		if o.ExpectFail {
			ok = o.Result.Status == "sat"
		}
		mark := "ok  "
		if !ok {
			mark = "FAIL"
			bad++
		}
		fmt.Printf("%s %-60s %-8s %-7s %.2fs  %s\n", mark, o.Name, o.Result.Status, o.Result.Solver, o.Result.TimeS, truncate(o.Text, 70))
		if !ok && wantReplay && o.Result.Status == "sat" && o.Kind != "cover" {
			rr := tryReplay(&checkRun{prog: prog, known: &KnownFile{}}, o, o.Result.Model)
			fmt.Printf("      replay: %s (%s)\n", rr.Outcome, rr.Detail)
			if rr.Outcome != "skipped" {
				fmt.Println(indentTail(rr.Test, 30))
				fmt.Println(indentTail(rr.Output, 8))
			}
		}
		if !ok && o.Result.Status == "error" {
			fmt.Println("     ", truncate(o.Result.Output, 400))
		}
	}
	var notes []string
	for k := range vc.enc.notes {
		notes = append(notes, k)
	}
	for k := range vc.enc.trusted {
		notes = append(notes, "trusted: "+k)
	}
	sort.Strings(notes)
	for _, n := range notes {
		fmt.Println("note:", n)
	}
	fmt.Printf("%d obligations, %d failed, %d errors\n", len(vc.obls), bad, len(vc.errs))
	if bad > 0 || len(vc.errs) > 0 {
		return 1
	}
	return 0
}





// tinyWorld adds "every slice in the entry state is empty" to a cover query.
func tinyWorld(q string) string {
	var extra []string
	re := regexp.MustCompile(`\(declare-const (\|[^|]*@(?:entry|in)\|) (\(Array Ptr Slice\)|Slice)\)`)
	for _, m := range re.FindAllStringSubmatch(q, -1) {
		if m[2] == "Slice" {
			extra = append(extra, fmt.Sprintf("(assert (= (s.len %s) 0))", m[1]))
		} else {
			extra = append(extra, fmt.Sprintf("(assert (forall ((p Ptr)) (! (= (s.len (select %s p)) 0) :pattern ((select %s p)))))", m[1], m[1]))
		}
	}
	return strings.Replace(q, "(check-sat)", strings.Join(extra, "\n")+"\n(check-sat)", 1)
}

var wantReplay bool

func indentTail(s string, n int) string {
	lines := strings.Split(strings.TrimSpace(s), "\n")
	if len(lines) > n {
		lines = lines[len(lines)-n:]
	}
	return "        " + strings.Join(lines, "\n        ")
}
