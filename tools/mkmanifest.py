#!/usr/bin/env python3
"""Regenerate /verif/MANIFEST.json from props/*.json (claimed properties) and
tools/not_applicable.json (reasons for the unclaimed ones)."""
import json, glob, os, subprocess
V = '/verif'
props = [json.loads(l) for l in open(f'{V}/properties.jsonl')]
ids = [p['id'] for p in props]
claimed = {}
for f in sorted(glob.glob(f'{V}/props/C*.json')):
    d = json.load(open(f))
    if d.get('claimed', True):
        claimed[d['id']] = d
na = json.load(open(f'{V}/tools/not_applicable.json'))
hooks = []
try:
    out = subprocess.run(['git', '-C', '/repo', 'log', '--format=%H %s'], capture_output=True, text=True).stdout
    for l in out.splitlines():
        h, s = l.split(' ', 1)
        if s.startswith('verif:'):
            hooks.append(h)
except Exception:
    pass
checks = []
for i in ids:
    if i not in claimed:
        continue
    d = claimed[i]
    checks.append({
        "property_id": i,
        "quick_cmd": f"bin/pverif check {i} --tier quick",
        "thorough_cmd": f"bin/pverif check {i} --tier thorough",
        "evidence_file": f"/verif/evidence/{i}.json",
        "replay_cmd_template": "bin/pverif replay {path}",
        "engine": "pverif",
        "level_claimed": {"category": "proof", "text": d["level_text"], "design_ref": d.get("design_ref", "DESIGN.md section 9")},
        "level_note": d["level_note"],
        "technique": d.get("technique", "contract-based deductive verification: weakest-precondition VCs generated from go/ssa of the real functions against //@ contracts, discharged by z3/cvc5"),
    })
m = {
    "version": 1,
    "setup_cmd": "cd /verif/engine && GOFLAGS=-mod=mod GOPROXY=off GOSUMDB=off GOTOOLCHAIN=local go build -o /verif/bin/pverif .",
    "hooks": {"guard": "verif",
              "enable": "contract files /repo/<pkg>/zz_verif_contracts.go carry '//go:build verif' and contain comments only; pverif loads packages with -tags verif",
              "baseline_off_cmd": "cd /repo && go test -vet=off -count=1 ./...",
              "source_commits": hooks, "add_only": True},
    "engines": [{"name": "pverif", "path": "/verif/engine", "serves_properties": sorted(claimed),
                 "kind_free_text": "self-written VC generator over go/ssa (x/tools v0.29.0) for Gobra-style contracts kept in build-tag-guarded comment files; obligations discharged by z3 4.8.12 / z3 5.1.0 / cvc5 1.0; static discharge of frame/lock/spawn clauses"}],
    "checks": checks,
    "notes": "See DESIGN.md. A property is claimed only when its obligations discharge on the unchanged tree; everything else is listed under not_applicable with the reason.",
    "not_applicable": [{"property_id": i, "reason": na.get(i, "not yet claimed: obligations for this property do not all discharge yet (DESIGN.md section 13)")} for i in ids if i not in claimed],
}
json.dump(m, open(f'{V}/MANIFEST.json', 'w'), indent=1)
print("claimed:", sorted(claimed))
