package main

// Evaluation of spec expressions to SMT terms, type-directed (go/types).

import (
	"golang.org/x/tools/go/ssa"
	"fmt"
	"go/constant"
	"go/token"
	"go/types"
	"strings"
)

type SpecCtx struct {
	vc        *VC
	lookup    func(string) (Val, bool)
	st        *State
	oldSt     *State
	oldLookup func(string) (Val, bool)
	pkg       *types.Package
	bound     map[string]Val
	inOld     bool
	fnName    string // enclosing Go function (for function-typed parameters)
	fr        *frame // enclosing frame (for atloop)
	loop      *LoopInfo   // loop whose clause is being evaluated (for entry(x))
	vis       *rangeGhost // visited-set ghost of the range-over-map loop whose invariant is being evaluated
}

type specErr string

func (c *SpecCtx) fail(f string, a ...interface{}) { panic(specErr(fmt.Sprintf(f, a...))) }

// Eval evaluates e; on error returns "true"-like placeholder and records an error.
func (c *SpecCtx) EvalBool(e Expr) (term string, err error) {
	defer func() {
		if r := recover(); r != nil {
			if se, ok := r.(specErr); ok {
				err = fmt.Errorf("%s", string(se))
				term = "true"
				return
			}
			panic(r)
		}
	}()
	v := c.eval(e)
	if v.isConst() {
		if v.Const.Kind() == constant.Bool {
			if constant.BoolVal(v.Const) {
				return "true", nil
			}
			return "false", nil
		}
	}
	if !isBool(v.Typ) {
		return "true", fmt.Errorf("expression %s is not boolean (type %s)", e, v.Typ)
	}
	return v.T, nil
}

func (c *SpecCtx) EvalVal(e Expr) (v Val, err error) {
	defer func() {
		if r := recover(); r != nil {
			if se, ok := r.(specErr); ok {
				err = fmt.Errorf("%s", string(se))
				return
			}
			panic(r)
		}
	}()
	v = c.eval(e)
	v = c.materialize(v, nil)
	return v, nil
}

func (c *SpecCtx) enc() *Encoder { return c.vc.enc }

// materialize turns an untyped constant into a typed term (default type or hint).
func (c *SpecCtx) materialize(v Val, hint types.Type) Val {
	if !v.isConst() {
		return v
	}
	e := c.enc()
	t := hint
	switch v.Const.Kind() {
	case constant.Bool:
		if constant.BoolVal(v.Const) {
			return Val{T: "true", Typ: types.Typ[types.Bool]}
		}
		return Val{T: "false", Typ: types.Typ[types.Bool]}
	case constant.String:
		return Val{T: e.strLit(constant.StringVal(v.Const)), Typ: types.Typ[types.String]}
	case constant.Int:
		if t == nil || !(isInteger(t) || isFloat(t)) {
			t = types.Typ[types.Int]
		}
		if isFloat(t) {
			return Val{T: e.floatLit(v.Const, false), Typ: t}
		}
		return Val{T: e.tlit(constBig(v.Const), t), Typ: t}
	case constant.Float:
		if t == nil || !isFloat(t) {
			if t != nil && isInteger(t) {
				if iv := constant.ToInt(v.Const); iv.Kind() == constant.Int {
					return Val{T: e.tlit(constBig(iv), t), Typ: t}
				}
			}
			t = types.Typ[types.Float64]
		}
		return Val{T: e.floatLit(v.Const, false), Typ: t}
	}
	c.fail("cannot materialize constant %v", v.Const)
	return v
}

func (c *SpecCtx) resolveType(te *TypeExpr) types.Type {
	switch te.Kind {
	case "ptr":
		return types.NewPointer(c.resolveType(te.Elem))
	case "slice":
		return types.NewSlice(c.resolveType(te.Elem))
	case "map":
		return types.NewMap(c.resolveType(te.Params[0]), c.resolveType(te.Elem))
	case "func":
		var ps []*types.Var
		for _, p := range te.Params {
			ps = append(ps, types.NewVar(0, nil, "", c.resolveType(p)))
		}
		res := types.NewTuple(types.NewVar(0, nil, "", c.resolveType(te.Elem)))
		return types.NewSignatureType(nil, nil, nil, types.NewTuple(ps...), res, false)
	}
	if te.Pkg != "" {
		if p := c.importedPkg(te.Pkg); p != nil {
			if o := p.Scope().Lookup(te.Name); o != nil {
				if tn, ok := o.(*types.TypeName); ok {
					return tn.Type()
				}
			}
		}
		c.fail("unknown type %s.%s", te.Pkg, te.Name)
	}
	if o := types.Universe.Lookup(te.Name); o != nil {
		if tn, ok := o.(*types.TypeName); ok {
			return tn.Type()
		}
	}
	if c.pkg != nil {
		if o := c.pkg.Scope().Lookup(te.Name); o != nil {
			if tn, ok := o.(*types.TypeName); ok {
				return tn.Type()
			}
		}
	}
	// a type declared inside the function under verification (or the function enclosing a closure)
	if c.vc != nil && c.vc.fn != nil {
		top := c.vc.fn
		for top.Parent() != nil {
			top = top.Parent()
		}
		if t := localNamedType(top, te.Name, map[*ssa.Function]bool{}); t != nil {
			return t
		}
	}
	c.fail("unknown type %s", te.Name)
	return nil
}

// localNamedType finds a named type declared inside fn (or its closures) by name, through the types of the values
// the function computes (map keys and elements, slices, pointers included).
func localNamedType(fn *ssa.Function, name string, seen map[*ssa.Function]bool) types.Type {
	if seen[fn] {
		return nil
	}
	seen[fn] = true
	var found types.Type
	var walk func(t types.Type, depth int)
	walk = func(t types.Type, depth int) {
		if found != nil || depth > 4 || t == nil {
			return
		}
		switch u := t.(type) {
		case *types.Named:
			if u.Obj().Name() == name && u.Obj().Pkg() != nil && u.Obj().Parent() != u.Obj().Pkg().Scope() {
				found = u
			}
		case *types.Pointer:
			walk(u.Elem(), depth+1)
		case *types.Slice:
			walk(u.Elem(), depth+1)
		case *types.Map:
			walk(u.Key(), depth+1)
			walk(u.Elem(), depth+1)
		}
	}
	for _, b := range fn.Blocks {
		for _, in := range b.Instrs {
			if v, ok := in.(ssa.Value); ok {
				walk(v.Type(), 0)
			}
		}
	}
	for _, fv := range fn.FreeVars {
		walk(fv.Type(), 0)
	}
	if found != nil {
		return found
	}
	for _, a := range fn.AnonFuncs {
		if t := localNamedType(a, name, seen); t != nil {
			return t
		}
	}
	return nil
}

func (c *SpecCtx) importedPkg(name string) *types.Package {
	if c.pkg == nil {
		return nil
	}
	for _, imp := range c.pkg.Imports() {
		if imp.Name() == name {
			return imp
		}
	}
	// search all loaded packages by name as a fallback
	for _, sp := range c.vc.prog.SSA.AllPackages() {
		if sp.Pkg.Name() == name {
			return sp.Pkg
		}
	}
	return nil
}

func (c *SpecCtx) typeOfExpr(e Expr) (types.Type, bool) {
	switch e := e.(type) {
	case *EType:
		return c.resolveType(e.T), true
	case *EIdent:
		if _, ok := c.bound[e.Name]; ok {
			return nil, false
		}
		if _, ok := c.lookup(e.Name); ok {
			return nil, false
		}
		if o := types.Universe.Lookup(e.Name); o != nil {
			if tn, ok := o.(*types.TypeName); ok {
				return tn.Type(), true
			}
		}
		if c.pkg != nil {
			if o := c.pkg.Scope().Lookup(e.Name); o != nil {
				if tn, ok := o.(*types.TypeName); ok {
					return tn.Type(), true
				}
			}
		}
	case *ESelector:
		if id, ok := e.X.(*EIdent); ok {
			if _, isVar := c.lookup(id.Name); !isVar {
				if p := c.importedPkg(id.Name); p != nil {
					if o := p.Scope().Lookup(e.Sel); o != nil {
						if tn, ok := o.(*types.TypeName); ok {
							return tn.Type(), true
						}
					}
				}
			}
		}
	case *EUnary:
		if e.Op == "*" {
			if t, ok := c.typeOfExpr(e.X); ok {
				return types.NewPointer(t), true
			}
		}
	}
	return nil, false
}

func (c *SpecCtx) constObj(o types.Object) (Val, bool) {
	switch o := o.(type) {
	case *types.Const:
		v := Val{Const: o.Val(), Typ: o.Type()}
		if b, ok := o.Type().Underlying().(*types.Basic); ok && b.Info()&types.IsUntyped == 0 {
			// typed constant
			return c.materialize(Val{Const: o.Val()}, o.Type()), true
		}
		return v, true
	case *types.Var:
		// package-level variable: load from memory
		if o.Parent() == o.Pkg().Scope() {
			sp := c.vc.prog.SSAPkgs[o.Pkg().Path()]
			if sp != nil {
				if g := sp.Var(o.Name()); g != nil {
					id := c.vc.prog.globalID(g)
					p := mkPtr(fmt.Sprint("(- ", -id, ")"), c.enc().ilit(0), "0")
					return Val{T: c.vc.load(c.st, p, o.Type()), Typ: o.Type()}, true
				}
			}
		}
	}
	return Val{}, false
}

func (c *SpecCtx) eval(e Expr) Val {
	enc := c.enc()
	switch e := e.(type) {
	case *EInt:
		v := constant.MakeFromLiteral(e.Text, token.INT, 0)
		return Val{Const: v}
	case *EFloat:
		return Val{Const: constant.MakeFromLiteral(e.Text, token.FLOAT, 0)}
	case *EStr:
		return Val{T: enc.strLit(e.Val), Typ: types.Typ[types.String]}
	case *EChar:
		return Val{Const: constant.MakeInt64(int64(e.Val))}
	case *EIdent:
		if v, ok := c.bound[e.Name]; ok {
			return v
		}
		switch e.Name {
		case "true":
			return Val{Const: constant.MakeBool(true)}
		case "false":
			return Val{Const: constant.MakeBool(false)}
		case "nil":
			return Val{T: "nil", Typ: types.Typ[types.UntypedNil]}
		}
		if v, ok := c.lookup(e.Name); ok {
			if v.Cell {
				// captured variable: its content in the state this expression is evaluated in (old() = at closure entry)
				return Val{T: c.vc.load(c.st, v.T, v.Typ), Typ: v.Typ}
			}
			return v
		}
		if c.pkg != nil {
			if o := c.pkg.Scope().Lookup(e.Name); o != nil {
				if v, ok := c.constObj(o); ok {
					return v
				}
			}
		}
		c.fail("unknown identifier %q", e.Name)
	case *ESelector:
		// package-qualified constant?
		if id, ok := e.X.(*EIdent); ok {
			_, b := c.bound[id.Name]
			_, l := c.lookup(id.Name)
			if !b && !l {
				if p := c.importedPkg(id.Name); p != nil {
					if o := p.Scope().Lookup(e.Sel); o != nil {
						if v, ok := c.constObj(o); ok {
							return v
						}
					}
					c.fail("unknown %s.%s", id.Name, e.Sel)
				}
			}
		}
		if p, ok := c.evalAddr(e.X); ok {
			return c.selectField(p, e.Sel)
		}
		x := c.eval(e.X)
		return c.selectField(x, e.Sel)
	case *EIndex:
		x := c.eval(e.X)
		switch u := x.Typ.Underlying().(type) {
		case *types.Slice:
			i := c.materialize(c.eval(e.I), types.Typ[types.Int])
			return Val{T: c.vc.load(c.st, enc.elemPtr(x.T, c.toInt(i)), u.Elem()), Typ: u.Elem()}
		case *types.Pointer:
			if at, ok := u.Elem().Underlying().(*types.Array); ok {
				i := c.materialize(c.eval(e.I), types.Typ[types.Int])
				p := mkPtr(pObj(x.T), c.toInt(i), pFld(x.T))
				return Val{T: c.vc.load(c.st, p, at.Elem()), Typ: at.Elem()}
			}
		case *types.Array:
			i := c.materialize(c.eval(e.I), types.Typ[types.Int])
			return Val{T: fmt.Sprintf("(select %s %s)", x.T, c.toInt(i)), Typ: u.Elem()}
		case *types.Map:
			k := c.materialize(c.eval(e.I), u.Key())
			return Val{T: c.vc.mapLookup(c.st, u, x.T, k.T), Typ: u.Elem()}
		case *types.Basic:
			if u.Info()&types.IsString != 0 {
				i := c.materialize(c.eval(e.I), types.Typ[types.Int])
				return Val{T: enc.uf("strat", []string{"Str", enc.I()}, enc.sortOf(types.Typ[types.Uint8]), x.T, c.toInt(i)), Typ: types.Typ[types.Uint8]}
			}
		}
		c.fail("cannot index %s (type %s)", e.X, x.Typ)
	case *ESlice:
		x := c.eval(e.X)
		lo := enc.ilit(0)
		if e.Lo != nil {
			lo = c.toInt(c.materialize(c.eval(e.Lo), types.Typ[types.Int]))
		}
		switch u := x.Typ.Underlying().(type) {
		case *types.Slice:
			hi := sLen(x.T)
			if e.Hi != nil {
				hi = c.toInt(c.materialize(c.eval(e.Hi), types.Typ[types.Int]))
			}
			return Val{T: fmt.Sprintf("(mk-slice %s %s %s %s %s)", sArr(x.T), enc.add(sOff(x.T), lo), enc.sub(hi, lo), enc.sub(sCap(x.T), lo), sFld(x.T)), Typ: x.Typ}
		case *types.Basic:
			if u.Info()&types.IsString != 0 {
				hi := fmt.Sprintf("(strlen %s)", x.T)
				if e.Hi != nil {
					hi = c.toInt(c.materialize(c.eval(e.Hi), types.Typ[types.Int]))
				}
				return Val{T: c.vc.strSub(x.T, lo, hi), Typ: x.Typ}
			}
		}
		c.fail("cannot slice %s", e.X)
	case *EUnary:
		if e.Op == "*" {
			x := c.eval(e.X)
			pt, ok := x.Typ.Underlying().(*types.Pointer)
			if !ok {
				c.fail("deref of non-pointer %s", e.X)
			}
			return Val{T: c.vc.load(c.st, x.T, pt.Elem()), Typ: pt.Elem()}
		}
		x := c.eval(e.X)
		if x.isConst() {
			switch e.Op {
			case "-":
				return Val{Const: constant.UnaryOp(token.SUB, x.Const, 0)}
			case "!":
				return Val{Const: constant.UnaryOp(token.NOT, x.Const, 0)}
			case "+":
				return x
			case "^":
				x = c.materialize(x, nil)
			}
		}
		var op token.Token
		switch e.Op {
		case "!":
			op = token.NOT
		case "-":
			op = token.SUB
		case "^":
			op = token.XOR
		case "+":
			return x
		default:
			c.fail("unsupported unary %s", e.Op)
		}
		t, err := enc.unop(op, x.T, x.Typ)
		if err != nil {
			c.fail("%v", err)
		}
		return Val{T: t, Typ: x.Typ}
	case *EBinary:
		return c.evalBinary(e)
	case *EQuant:
		saved := c.bound
		nb := map[string]Val{}
		for k, v := range saved {
			nb[k] = v
		}
		var decls []string
		var ranges []string
		for _, qv := range e.Vars {
			t := c.resolveType(qv.T)
			name := "q." + qv.Name + "!" + fmt.Sprint(c.vc.enc.ctr)
			c.vc.enc.ctr++
			q := "|" + name + "|"
			decls = append(decls, fmt.Sprintf("(%s %s)", q, enc.sortOf(t)))
			nb[qv.Name] = Val{T: q, Typ: t}
			if wf := enc.wellFormed(q, t, c.st.wm); wf != "true" && !isInteger(t) {
				ranges = append(ranges, wf)
			}
		}
		c.bound = nb
		// range triggers: for a bound variable q guarded by q < len(S), the element pointer
		// idx(S, q) is the natural E-matching trigger; a trivially true mention of it is put
		// into the body so that skolemised goals contain the ground instance
		var trigTerms []string
		trigFor := map[string]bool{}
		{
			var guard Expr
			if bb, ok := e.Body.(*EBinary); ok && bb.Op == "==>" && e.Forall {
				guard = bb.X
			} else if !e.Forall {
				guard = e.Body
			}
			if guard != nil {
				var cs []Expr
				conjuncts(guard, &cs)
				for _, cj := range cs {
					bb, ok := cj.(*EBinary)
					if !ok || bb.Op != "<" {
						continue
					}
					id, ok := bb.X.(*EIdent)
					if !ok {
						continue
					}
					if _, isQ := nb[id.Name]; !isQ || trigFor[id.Name] {
						continue
					}
					if _, mine := saved[id.Name]; mine {
						continue
					}
					call, ok := bb.Y.(*ECall)
					if !ok || len(call.Args) != 1 {
						continue
					}
					if fn, ok := call.Fun.(*EIdent); !ok || fn.Name != "len" {
						continue
					}
					if mentionsVar(call.Args[0], id.Name) {
						continue
					}
					func() {
						defer func() { recover() }()
						sv := c.eval(call.Args[0])
						if _, isSl := sv.Typ.Underlying().(*types.Slice); isSl {
							trigTerms = append(trigTerms, enc.elemPtr(sv.T, nb[id.Name].T))
							trigFor[id.Name] = true
						}
					}()
				}
			}
		}
		body := c.eval(e.Body)
		c.bound = saved
		body = c.materialize(body, nil)
		if !isBool(body.Typ) {
			c.fail("quantifier body not boolean: %s", e.Body)
		}
		b := body.T
		var qnames []string
		for _, qv := range e.Vars {
			qnames = append(qnames, nb[qv.Name].T)
		}
		pat := idxPatterns(b, qnames)
		if len(trigTerms) > 0 && len(trigFor) == len(e.Vars) {
			enc.addPre("trig", "(declare-fun trig (Ptr) Bool)\n(assert (forall ((p Ptr)) (! (trig p) :pattern ((trig p)))))")
			var ts []string
			for _, t := range trigTerms {
				ts = append(ts, "(trig "+t+")")
			}
			tr := and(ts...)
			// splice the mention into the body: (=> G P) becomes (=> G (and trig P)); (and ...) gets it as a conjunct
			if e.Forall {
				if parts, ok := splitApp(b, "=>", 2); ok {
					b = fmt.Sprintf("(=> %s (and %s %s))", parts[0], tr, parts[1])
				} else {
					b = fmt.Sprintf("(and %s %s)", tr, b)
				}
			} else {
				b = fmt.Sprintf("(and %s %s)", tr, b)
			}
			mp := ":pattern (" + strings.Join(trigTerms, " ") + ")"
			if pat == "" || len(e.Vars) > 1 {
				pat = mp
			} else if !strings.Contains(pat, trigTerms[0]) {
				pat = pat + " " + mp
			}
		}
		if e.Forall {
			if len(ranges) > 0 {
				b = implies(and(ranges...), b)
			}
			if pat != "" {
				b = fmt.Sprintf("(! %s %s)", b, pat)
			}
			return Val{T: fmt.Sprintf("(forall (%s) %s)", strings.Join(decls, " "), b), Typ: types.Typ[types.Bool]}
		}
		if len(ranges) > 0 {
			b = and(append(ranges, b)...)
		}
		if pat != "" {
			b = fmt.Sprintf("(! %s %s)", b, pat)
		}
		return Val{T: fmt.Sprintf("(exists (%s) %s)", strings.Join(decls, " "), b), Typ: types.Typ[types.Bool]}
	case *ECall:
		return c.evalCall(e)
	case *EType:
		c.fail("type %s used as value", e.T)
	}
	c.fail("unsupported expression %s", e)
	return Val{}
}

// idxPatterns builds explicit E-matching patterns from the element accesses (idx S q)
// whose index is exactly a bound variable: one multi-pattern covering every bound
// variable, or "" when some variable has no such access (the solver then infers patterns).
func idxPatterns(body string, qvars []string) string {
	found := map[string][]string{}
	for off := 0; ; {
		i := strings.Index(body[off:], "(idx ")
		if i < 0 {
			break
		}
		i += off
		off = i + 1
		// parse first argument
		j := i + len("(idx ")
		start := j
		depth := 0
		for j < len(body) {
			c := body[j]
			if c == '|' {
				k := strings.IndexByte(body[j+1:], '|')
				if k < 0 {
					break
				}
				j += k + 2
				if depth == 0 {
					break
				}
				continue
			}
			if c == '(' {
				depth++
			} else if c == ')' {
				depth--
				if depth == 0 {
					j++
					break
				}
			} else if c == ' ' && depth == 0 {
				break
			}
			j++
		}
		if j >= len(body) || body[j] != ' ' {
			continue
		}
		arg1 := body[start:j]
		rest := body[j+1:]
		for _, q := range qvars {
			if strings.HasPrefix(rest, q+")") {
				// the slice term must not mention bound variables of this quantifier other than via q
				t := "(idx " + arg1 + " " + q + ")"
				dup := false
				for _, x := range found[q] {
					if x == t {
						dup = true
					}
				}
				if !dup {
					found[q] = append(found[q], t)
				}
			}
		}
	}
	for _, q := range qvars {
		if len(found[q]) == 0 {
			return ""
		}
	}
	// one multi-pattern per combination would be exponential; use the first access of each variable,
	// plus alternatives when there is a single bound variable
	if len(qvars) == 1 {
		var ps []string
		for _, t := range found[qvars[0]] {
			ps = append(ps, ":pattern ("+t+")")
		}
		return strings.Join(ps, " ")
	}
	var ts []string
	for _, q := range qvars {
		ts = append(ts, found[q][0])
	}
	return ":pattern (" + strings.Join(ts, " ") + ")"
}

// evalAddr: pointer to the struct denoted by an addressable expression (s[i], p.f, *p),
// so that field selection reads one cell instead of loading the whole struct.
func (c *SpecCtx) evalAddr(e Expr) (Val, bool) {
	switch e := e.(type) {
	case *EIndex:
		id, isId := e.X.(*EIdent)
		if isId {
			if _, bound := c.bound[id.Name]; !bound {
				if _, ok := c.lookup(id.Name); !ok {
					return Val{}, false
				}
			}
		}
		x := c.eval(e.X)
		if x.Typ == nil {
			return Val{}, false
		}
		sl, ok := x.Typ.Underlying().(*types.Slice)
		if !ok {
			return Val{}, false
		}
		if _, isStruct := sl.Elem().Underlying().(*types.Struct); !isStruct {
			return Val{}, false
		}
		i := c.materialize(c.eval(e.I), types.Typ[types.Int])
		return Val{T: c.enc().elemPtr(x.T, c.toInt(i)), Typ: types.NewPointer(sl.Elem())}, true
	case *EUnary:
		if e.Op == "*" {
			x := c.eval(e.X)
			if pt, ok := x.Typ.Underlying().(*types.Pointer); ok {
				if _, isStruct := pt.Elem().Underlying().(*types.Struct); isStruct {
					return x, true
				}
			}
		}
	}
	return Val{}, false
}

// toInt converts an integer-typed value to the index sort I.
func (c *SpecCtx) toInt(v Val) string {
	if v.isConst() {
		v = c.materialize(v, types.Typ[types.Int])
	}
	t, err := c.enc().convert(v.T, v.Typ, types.Typ[types.Int])
	if err != nil {
		c.fail("%v", err)
	}
	return t
}

func (c *SpecCtx) selectField(x Val, sel string) Val {
	enc := c.enc()
	if x.Typ == nil {
		c.fail("selector %s on untyped value", sel)
	}
	obj, index, _ := types.LookupFieldOrMethod(x.Typ, true, c.pkgFor(x.Typ), sel)
	fld, ok := obj.(*types.Var)
	if !ok || fld == nil {
		c.fail("no field %s in %s", sel, x.Typ)
	}
	cur := x
	for _, fi := range index {
		t := cur.Typ
		if pt, ok := t.Underlying().(*types.Pointer); ok {
			st := pt.Elem().Underlying().(*types.Struct)
			ft := st.Field(fi).Type()
			p := enc.fieldPtr(cur.T, fi)
			if _, isStruct := ft.Underlying().(*types.Struct); isStruct {
				// keep as pointer to nested struct for further selection
				cur = Val{T: p, Typ: types.NewPointer(ft)}
				continue
			}
			fm := ""
			if isCellType(ft) {
				fm = enc.memForField(pt.Elem(), fi)
			}
			cur = Val{T: c.vc.loadM(c.st, fm, p, ft), Typ: ft}
			continue
		}
		st, ok := t.Underlying().(*types.Struct)
		if !ok {
			c.fail("selector %s on non-struct %s", sel, t)
		}
		s := enc.structSort(t)
		cur = Val{T: fmt.Sprintf("(%s.%d %s)", s, fi, cur.T), Typ: st.Field(fi).Type()}
	}
	// if the final value is a pointer-to-nested-struct produced above, load it as a value
	if pt, ok := cur.Typ.(*types.Pointer); ok && !types.Identical(cur.Typ, fld.Type()) {
		cur = Val{T: c.vc.load(c.st, cur.T, pt.Elem()), Typ: pt.Elem()}
	}
	return cur
}

func (c *SpecCtx) pkgFor(t types.Type) *types.Package {
	if pt, ok := t.(*types.Pointer); ok {
		t = pt.Elem()
	}
	if n, ok := t.(*types.Named); ok && n.Obj().Pkg() != nil {
		return n.Obj().Pkg()
	}
	return c.pkg
}

var tokOf = map[string]token.Token{
	"+": token.ADD, "-": token.SUB, "*": token.MUL, "/": token.QUO, "%": token.REM,
	"&": token.AND, "|": token.OR, "^": token.XOR, "&^": token.AND_NOT, "<<": token.SHL, ">>": token.SHR,
	"==": token.EQL, "!=": token.NEQ, "<": token.LSS, "<=": token.LEQ, ">": token.GTR, ">=": token.GEQ,
	"&&": token.LAND, "||": token.LOR,
}

func (c *SpecCtx) evalBinary(e *EBinary) Val {
	enc := c.enc()
	boolT := types.Typ[types.Bool]
	switch e.Op {
	case "==>", "<==>", "&&", "||":
		x := c.materialize(c.eval(e.X), nil)
		y := c.materialize(c.eval(e.Y), nil)
		if !isBool(x.Typ) || !isBool(y.Typ) {
			c.fail("operands of %s must be boolean in %s", e.Op, e)
		}
		switch e.Op {
		case "==>":
			return Val{T: implies(x.T, y.T), Typ: boolT}
		case "<==>":
			return Val{T: fmt.Sprintf("(= %s %s)", x.T, y.T), Typ: boolT}
		case "&&":
			return Val{T: and(x.T, y.T), Typ: boolT}
		default:
			return Val{T: or(x.T, y.T), Typ: boolT}
		}
	}
	op := tokOf[e.Op]
	x := c.eval(e.X)
	y := c.eval(e.Y)
	if x.isConst() && y.isConst() {
		switch op {
		case token.EQL, token.NEQ, token.LSS, token.LEQ, token.GTR, token.GEQ:
			return Val{Const: constant.MakeBool(constant.Compare(x.Const, op, y.Const))}
		case token.SHL, token.SHR:
			s, _ := constant.Uint64Val(y.Const)
			return Val{Const: constant.Shift(x.Const, op, uint(s))}
		case token.QUO:
			if x.Const.Kind() == constant.Int && y.Const.Kind() == constant.Int {
				return Val{Const: constant.BinaryOp(x.Const, token.QUO_ASSIGN, y.Const)}
			}
		}
		return Val{Const: constant.BinaryOp(x.Const, op, y.Const)}
	}
	if op == token.SHL || op == token.SHR {
		x = c.materialize(x, nil)
		y = c.materialize(y, types.Typ[types.Uint])
		t, err := enc.binop(op, x.T, y.T, x.Typ, y.Typ)
		if err != nil {
			c.fail("%v", err)
		}
		return Val{T: t, Typ: x.Typ}
	}
	// nil comparisons
	isNil := func(v Val) bool { return v.T == "nil" && v.Typ == types.Typ[types.UntypedNil] }
	if isNil(x) && !isNil(y) {
		x = Val{T: enc.zero(y.Typ), Typ: y.Typ}
	}
	if isNil(y) && !isNil(x) {
		y = Val{T: enc.zero(x.Typ), Typ: x.Typ}
	}
	if x.isConst() {
		x = c.materialize(x, y.Typ)
	}
	if y.isConst() {
		y = c.materialize(y, x.Typ)
	}
	if x.Typ == nil || y.Typ == nil {
		c.fail("untyped operand in %s", e)
	}
	if enc.sortOf(x.Typ) != enc.sortOf(y.Typ) {
		c.fail("mismatched operand types in %s: %s vs %s", e, x.Typ, y.Typ)
	}
	if enc.isBV(x.Typ) && isInteger(y.Typ) && isUnsigned(x.Typ) != isUnsigned(y.Typ) {
		c.fail("mixed signedness in %s: %s vs %s (insert an explicit conversion)", e, x.Typ, y.Typ)
	}
	t, err := enc.binop(op, x.T, y.T, x.Typ, y.Typ)
	if err != nil {
		c.fail("%v in %s", err, e)
	}
	switch op {
	case token.EQL, token.NEQ, token.LSS, token.LEQ, token.GTR, token.GEQ:
		return Val{T: t, Typ: boolT}
	}
	return Val{T: t, Typ: x.Typ}
}

func (c *SpecCtx) evalCall(e *ECall) Val {
	enc := c.enc()
	// conversion?
	if t, ok := c.typeOfExpr(e.Fun); ok && len(e.Args) == 1 {
		x := c.eval(e.Args[0])
		if x.isConst() {
			return c.materialize(x, t)
		}
		if x.T == "nil" && x.Typ == types.Typ[types.UntypedNil] {
			return Val{T: enc.zero(t), Typ: t}
		}
		r, err := enc.convert(x.T, x.Typ, t)
		if err != nil {
			c.fail("%v", err)
		}
		return Val{T: r, Typ: t}
	}
	name := ""
	if id, ok := e.Fun.(*EIdent); ok {
		name = id.Name
	} else if sel, ok := e.Fun.(*ESelector); ok {
		if id, ok := sel.X.(*EIdent); ok {
			name = id.Name + "." + sel.Sel
		}
	}
	intT := types.Typ[types.Int]
	boolT := types.Typ[types.Bool]
	switch name {
	case "old":
		if c.oldSt == nil {
			c.fail("old() not available here")
		}
		saveSt, saveLk, saveIn := c.st, c.lookup, c.inOld
		c.st = c.oldSt
		if c.oldLookup != nil {
			c.lookup = c.oldLookup
		}
		c.inOld = true
		v := c.eval(e.Args[0])
		c.st, c.lookup, c.inOld = saveSt, saveLk, saveIn
		return v
	case "entry":
		// entry(x): the value the loop-carried variable x had when this loop was entered
		id, isId := e.Args[0].(*EIdent)
		if c.loop == nil || !isId || c.loop.entryVals == nil {
			c.fail("entry(x) is only available in loop invariants, for a loop-carried variable")
		}
		for phi, v := range c.loop.entryVals {
			if phi.Comment == id.Name {
				return v
			}
		}
		c.fail("entry(%s): no loop-carried variable of that name", id.Name)
	case "iter":
		// iter(x): the value the loop-carried variable x has at the loop header in the current iteration
		id, isId := e.Args[0].(*EIdent)
		if c.loop == nil || !isId || c.loop.hdrVals == nil {
			c.fail("iter(x) is only available in clauses of a loop, for a loop-carried variable")
		}
		for phi, v := range c.loop.hdrVals {
			if phi.Comment == id.Name {
				return v
			}
		}
		c.fail("iter(%s): no loop-carried variable of that name", id.Name)
	case "atiter":
		// atiter(k, e): e evaluated in the memory state at the header of loop k in the current iteration
		if c.fr == nil || len(e.Args) != 2 {
			c.fail("atiter(k, e) not available here")
		}
		kv := c.eval(e.Args[0])
		if !kv.isConst() {
			c.fail("atiter: loop ordinal must be a constant")
		}
		k64, _ := constant.Int64Val(kv.Const)
		var hst *State
		for _, ol := range c.fr.loops {
			if ol.ordinal == int(k64) {
				hst = ol.hdrSt
			}
		}
		if hst == nil {
			c.fail("atiter(%d, ...): loop %d has not been entered on this path", k64, k64)
		}
		saveSt, saveIn := c.st, c.inOld
		c.st = hst
		c.inOld = true
		v := c.eval(e.Args[1])
		c.st, c.inOld = saveSt, saveIn
		return v
	case "atloop":
		// atloop(k, e): e evaluated in the state in which loop k was entered (e.g. right after a barrier)
		if c.fr == nil || len(e.Args) != 2 {
			c.fail("atloop(k, e) not available here")
		}
		kv := c.eval(e.Args[0])
		if !kv.isConst() {
			c.fail("atloop: loop ordinal must be a constant")
		}
		k64, _ := constant.Int64Val(kv.Const)
		pst := c.fr.loopPre[int(k64)]
		if pst == nil {
			c.fail("atloop(%d, ...): loop %d has not been entered on this path", k64, k64)
		}
		saveSt, saveIn := c.st, c.inOld
		c.st = pst
		c.inOld = true
		v := c.eval(e.Args[1])
		c.st, c.inOld = saveSt, saveIn
		return v
	case "len", "cap":
		x := c.eval(e.Args[0])
		switch u := x.Typ.Underlying().(type) {
		case *types.Slice:
			if name == "len" {
				return Val{T: sLen(x.T), Typ: intT}
			}
			return Val{T: sCap(x.T), Typ: intT}
		case *types.Basic:
			if u.Info()&types.IsString != 0 {
				return Val{T: fmt.Sprintf("(strlen %s)", x.T), Typ: intT}
			}
		case *types.Map:
			return Val{T: c.vc.mapLen(c.st, u, x.T), Typ: intT}
		case *types.Array:
			return Val{T: enc.ilit(u.Len()), Typ: intT}
		case *types.Pointer:
			if at, ok := u.Elem().Underlying().(*types.Array); ok {
				return Val{T: enc.ilit(at.Len()), Typ: intT}
			}
		}
		c.fail("len of %s", x.Typ)
	case "ite":
		cond := c.materialize(c.eval(e.Args[0]), nil)
		a := c.eval(e.Args[1])
		b := c.eval(e.Args[2])
		if a.isConst() {
			a = c.materialize(a, b.Typ)
		}
		if b.isConst() {
			b = c.materialize(b, a.Typ)
		}
		isNil := func(v Val) bool { return v.T == "nil" && v.Typ == types.Typ[types.UntypedNil] }
		if isNil(a) {
			a = Val{T: enc.zero(b.Typ), Typ: b.Typ}
		}
		if isNil(b) {
			b = Val{T: enc.zero(a.Typ), Typ: a.Typ}
		}
		return Val{T: fmt.Sprintf("(ite %s %s %s)", cond.T, a.T, b.T), Typ: a.Typ}
	case "fresh":
		x := c.eval(e.Args[0])
		if c.oldSt == nil {
			c.fail("fresh() needs an entry state")
		}
		switch x.Typ.Underlying().(type) {
		case *types.Pointer:
			return Val{T: fmt.Sprintf("(> %s %s)", pObj(x.T), c.oldSt.wm), Typ: boolT}
		case *types.Slice:
			return Val{T: fmt.Sprintf("(or (= %s 0) (> %s %s))", sArr(x.T), sArr(x.T), c.oldSt.wm), Typ: boolT}
		case *types.Map:
			return Val{T: fmt.Sprintf("(> %s %s)", x.T, c.oldSt.wm), Typ: boolT}
		}
		c.fail("fresh of %s", x.Typ)
	case "allocated":
		x := c.eval(e.Args[0])
		switch x.Typ.Underlying().(type) {
		case *types.Pointer:
			return Val{T: fmt.Sprintf("(<= %s %s)", pObj(x.T), c.st.wm), Typ: boolT}
		case *types.Slice:
			return Val{T: fmt.Sprintf("(<= %s %s)", sArr(x.T), c.st.wm), Typ: boolT}
		}
		c.fail("allocated of %s", x.Typ)
	case "visited":
		// visited(k): in an invariant of a range-over-map loop, key k has been produced by an earlier iteration
		if c.vis == nil || len(e.Args) != 1 {
			c.fail("visited(k) is only available in invariants of a range-over-map loop")
		}
		k := c.materialize(c.eval(e.Args[0]), c.vis.mt.Key())
		return Val{T: fmt.Sprintf("(select %s %s)", c.vc.memAtByName(c.st, c.vis.name), k.T), Typ: boolT}
	case "has":
		// has(m, k): key k present in map m
		m := c.eval(e.Args[0])
		mt, ok := m.Typ.Underlying().(*types.Map)
		if !ok {
			c.fail("has() on non-map")
		}
		k := c.materialize(c.eval(e.Args[1]), mt.Key())
		return Val{T: c.vc.mapHas(c.st, mt, m.T, k.T), Typ: boolT}
	case "same_elems":
		// same_elems(a, b): slices a and b denote the same memory region
		a := c.eval(e.Args[0])
		b := c.eval(e.Args[1])
		return Val{T: fmt.Sprintf("(and (= %s %s) (= %s %s) (= %s %s) (= %s %s))", sArr(a.T), sArr(b.T), sOff(a.T), sOff(b.T), sLen(a.T), sLen(b.T), sFld(a.T), sFld(b.T)), Typ: boolT}
	case "lower":
		sv := c.eval(e.Args[0])
		c.enc().trusted["library contract: strings.ToLower: deterministic function of its arguments, otherwise unconstrained"] = true
		return Val{T: enc.uf("ext.strings.ToLower.0", []string{"Str"}, "Str", sv.T), Typ: types.Typ[types.String]}
	case "callres":
		// callres("F", k): result k of the function's single call of F (postconditions of small wrappers:
		// "the result is computed from what F returned")
		if len(e.Args) != 2 {
			c.fail("callres(name, k)")
		}
		nlit, okn := e.Args[0].(*EStr)
		kv := c.eval(e.Args[1])
		if !okn || !kv.isConst() {
			c.fail("callres: name and result index must be constants")
		}
		k64, _ := constant.Int64Val(kv.Const)
		rs := c.vc.callRes[nlit.Val]
		if c.vc.callCount[nlit.Val] != 1 {
			c.fail("callres(%q, ...): the function must call %s exactly once on the analysed paths (found %d calls)", nlit.Val, nlit.Val, c.vc.callCount[nlit.Val])
		}
		if int(k64) >= len(rs) {
			c.fail("callres(%q, %d): no such result", nlit.Val, k64)
		}
		return rs[k64]
	case "aftercall":
		// aftercall("F", e): e evaluated in the memory state right after the function's single call of F
		if len(e.Args) != 2 {
			c.fail("aftercall(name, e)")
		}
		nlit, okn := e.Args[0].(*EStr)
		if !okn {
			c.fail("aftercall: name must be a string constant")
		}
		if c.vc.callCount[nlit.Val] != 1 || c.vc.callSt[nlit.Val] == nil {
			c.fail("aftercall(%q, ...): the function must call %s exactly once on the analysed paths (found %d calls)", nlit.Val, nlit.Val, c.vc.callCount[nlit.Val])
		}
		saveSt, saveIn := c.st, c.inOld
		c.st = c.vc.callSt[nlit.Val]
		c.inOld = true
		v := c.eval(e.Args[1])
		c.st, c.inOld = saveSt, saveIn
		return v
	case "boxed":
		// boxed(x): the interface value a conversion of x to an interface type yields (dynamic type tag and payload),
		// for comparing an interface-typed argument with the concrete value it was made from
		v := c.eval(e.Args[0])
		return Val{T: fmt.Sprintf("(mk-iface %d %s)", enc.typeTag(v.Typ), c.vc.box(v.Typ, v.T)), Typ: types.NewInterfaceType(nil, nil).Complete()}
	case "reached":
		// reached(k): the header of loop k of this function has been reached on the path so far (with partial
		// correctness: the loop has then run to its exit before anything after it executes)
		kv := c.eval(e.Args[0])
		if !kv.isConst() || c.fr == nil {
			c.fail("reached: loop ordinal must be a constant")
		}
		k64, _ := constant.Int64Val(kv.Const)
		found := false
		for _, ol := range c.fr.loops {
			if ol.ordinal == int(k64) {
				found = true
			}
		}
		if !found {
			c.fail("reached(%d): the function has no loop with that ordinal", k64)
		}
		return Val{T: c.vc.memAtByName(c.st, fmt.Sprintf("calledloop.%d", k64)), Typ: boolT}
	case "fapply":
		// fapply(f, args...): result 0 of calling the function value f on args, in the same uninterpreted-function
		// model the generator uses for calls through function values under funcvalues=pure
		fv := c.eval(e.Args[0])
		sig, okSig := fv.Typ.Underlying().(*types.Signature)
		if !okSig || sig.Results().Len() < 1 {
			c.fail("fapply: first argument must be a function value with a result")
		}
		sorts := []string{"Int"}
		ts := []string{fv.T}
		for _, a := range e.Args[1:] {
			av := c.eval(a)
			sorts = append(sorts, enc.sortOf(av.Typ))
			ts = append(ts, av.T)
		}
		rt := sig.Results().At(0).Type()
		return Val{T: enc.uf(fmt.Sprintf("fapply.%s.%d", sigKey(sig), 0), sorts, enc.sortOf(rt), ts...), Typ: rt}
	case "trimprefix":
		// strings.TrimPrefix, same model as the library call: s[len(p):] if HasPrefix(s, p) else s
		sv := c.eval(e.Args[0])
		pv := c.eval(e.Args[1])
		enc.addPre("strhasprefix", "(declare-fun strhasprefix (Str Str) Bool)")
		c.enc().trusted["library contract: strings.TrimPrefix: s[len(p):] if HasPrefix(s,p) else s"] = true
		sub := c.vc.strSub(sv.T, fmt.Sprintf("(strlen %s)", pv.T), fmt.Sprintf("(strlen %s)", sv.T))
		return Val{T: fmt.Sprintf("(ite (strhasprefix %s %s) %s %s)", sv.T, pv.T, sub, sv.T), Typ: types.Typ[types.String]}
	case "det":
		// det("Func", k, args...): result k of a deterministic function of this package (value parameters and
		// results only, see functional.go), as the same uninterpreted function the generator uses for calls of it
		if len(e.Args) < 2 {
			c.fail("det(name, k, args...)")
		}
		nlit, okn := e.Args[0].(*EStr)
		kv := c.eval(e.Args[1])
		if !okn || !kv.isConst() {
			c.fail("det: name and result index must be constants")
		}
		k64, _ := constant.Int64Val(kv.Const)
		var fn *ssa.Function
		if c.pkg != nil {
			fn = c.vc.prog.FindFunc(c.pkg.Path(), nlit.Val)
		}
		if fn == nil || !c.vc.prog.isFunctional(fn) || int(k64) >= fn.Signature.Results().Len() || len(e.Args)-2 != fn.Signature.Params().Len() {
			c.fail("det: %s is not a deterministic value function of this package (or wrong arity / result index)", nlit.Val)
		}
		var sorts, ts []string
		for i, a := range e.Args[2:] {
			v := c.materialize(c.eval(a), fn.Signature.Params().At(i).Type())
			sorts = append(sorts, enc.sortOf(v.Typ))
			ts = append(ts, v.T)
		}
		name := strings.NewReplacer("/", "_", "(", "", ")", "", "*", "").Replace(fn.String())
		rt := fn.Signature.Results().At(int(k64)).Type()
		return Val{T: enc.uf(fmt.Sprintf("detfn.%s.%d", name, k64), sorts, enc.sortOf(rt), ts...), Typ: rt}
	case "ext":
		// ext("pkg.Func", k, args...): result k of a deterministic library function, as the same uninterpreted
		// function the VC generator uses for calls of it
		if len(e.Args) < 2 {
			c.fail("ext(name, k, args...)")
		}
		nlit, okn := e.Args[0].(*EStr)
		kv := c.eval(e.Args[1])
		if !okn || !kv.isConst() {
			c.fail("ext: name and result index must be constants")
		}
		full := nlit.Val
		k64, _ := constant.Int64Val(kv.Const)
		dot := strings.LastIndex(full, ".")
		var fn *ssa.Function
		if dot > 0 {
			if pk := c.vc.prog.SSA.ImportedPackage(full[:dot]); pk != nil {
				fn = pk.Func(full[dot+1:])
			}
		}
		if fn == nil || int(k64) >= fn.Signature.Results().Len() {
			c.fail("ext: unknown library function or result index: %s", full)
		}
		var sorts, ts []string
		for _, a := range e.Args[2:] {
			av := c.eval(a)
			if av.isConst() {
				av = c.materialize(av, nil)
			}
			sorts = append(sorts, enc.sortOf(av.Typ))
			ts = append(ts, av.T)
		}
		rt := fn.Signature.Results().At(int(k64)).Type()
		c.enc().trusted["library contract: "+full+": deterministic function of its arguments, otherwise unconstrained"] = true
		return Val{T: enc.uf(fmt.Sprintf("ext.%s.%d", sanitize(full), k64), sorts, enc.sortOf(rt), ts...), Typ: rt}
	case "trimsuffix":
		sv := c.eval(e.Args[0])
		tv := c.eval(e.Args[1])
		c.enc().trusted["library contract: strings.TrimSuffix: deterministic function of its arguments, otherwise unconstrained"] = true
		return Val{T: enc.uf("ext.strings.TrimSuffix.0", []string{"Str", "Str"}, "Str", sv.T, tv.T), Typ: types.Typ[types.String]}
	case "same":
		// same(a, b): identical values (for floats: identical bit patterns up to NaN payloads, unlike ==)
		a := c.eval(e.Args[0])
		b := c.eval(e.Args[1])
		if a.isConst() {
			a = c.materialize(a, b.Typ)
		}
		if b.isConst() {
			b = c.materialize(b, a.Typ)
		}
		return Val{T: fmt.Sprintf("(= %s %s)", a.T, b.T), Typ: boolT}
	case "addr":
		// addr(x): the address of a local variable that lives in memory (a captured or address-taken local)
		if sel, isSel := e.Args[0].(*ESelector); isSel {
			// addr(p.f): the address of field f of the struct p points to
			x := c.eval(sel.X)
			pt, isPtr := x.Typ.Underlying().(*types.Pointer)
			if !isPtr {
				c.fail("addr(x.f): x must be a pointer to a struct")
			}
			st, isSt := pt.Elem().Underlying().(*types.Struct)
			if !isSt {
				c.fail("addr(x.f): x must be a pointer to a struct")
			}
			for fi := 0; fi < st.NumFields(); fi++ {
				if st.Field(fi).Name() == sel.Sel {
					return Val{T: enc.fieldPtr(x.T, fi), Typ: types.NewPointer(st.Field(fi).Type())}
				}
			}
			c.fail("addr(x.%s): no such field", sel.Sel)
		}
		id, isId := e.Args[0].(*EIdent)
		if !isId {
			c.fail("addr(x): x must be a variable name or a field selection")
		}
		v, ok := c.lookup(id.Name)
		if !ok {
			c.fail("addr(%s): unknown variable", id.Name)
		}
		if v.Cell {
			return Val{T: v.T, Typ: types.NewPointer(v.Typ)}
		}
		c.fail("addr(%s): the variable does not live in memory", id.Name)
	case "called":
		// called(label): the ghost flag of the function-level mustcall clause with that label — true iff a matching
		// call has been executed on the path so far (for ordering: "F was called before this point")
		id, isId := e.Args[0].(*EIdent)
		if !isId || c.fr == nil || c.fr.fc == nil {
			c.fail("called(label): label of a function-level mustcall clause")
		}
		for i, mc := range c.fr.fc.MustCalls {
			if mc.Label == id.Name {
				return Val{T: c.vc.memAtByName(c.st, fmt.Sprintf("calledfn.%d", i)), Typ: boolT}
			}
		}
		c.fail("called(%s): no function-level mustcall clause with that label", id.Name)
	case "newer":
		// newer(x, k): the object x refers to (pointer, slice backing array, map) was allocated during the current
		// iteration of loop k (after its header)
		if c.fr == nil || len(e.Args) != 2 {
			c.fail("newer(x, k) not available here")
		}
		kv := c.eval(e.Args[1])
		if !kv.isConst() {
			c.fail("newer: loop ordinal must be a constant")
		}
		k64, _ := constant.Int64Val(kv.Const)
		var hst *State
		for _, ol := range c.fr.loops {
			if ol.ordinal == int(k64) {
				hst = ol.hdrSt
			}
		}
		if hst == nil {
			c.fail("newer(x, %d): loop %d has not been entered on this path", k64, k64)
		}
		x := c.eval(e.Args[0])
		switch x.Typ.Underlying().(type) {
		case *types.Pointer:
			return Val{T: fmt.Sprintf("(> %s %s)", pObj(x.T), hst.wm), Typ: boolT}
		case *types.Slice:
			return Val{T: fmt.Sprintf("(> %s %s)", sArr(x.T), hst.wm), Typ: boolT}
		case *types.Map:
			return Val{T: fmt.Sprintf("(> %s %s)", x.T, hst.wm), Typ: boolT}
		}
		c.fail("newer of %s", x.Typ)
	case "inarray":
		// inarray(p, s): pointer p points into the backing array of slice s
		pv := c.eval(e.Args[0])
		sv := c.eval(e.Args[1])
		return Val{T: fmt.Sprintf("(= %s %s)", pObj(pv.T), sArr(sv.T)), Typ: boolT}
	case "same_array":
		// same_array(a, b): the two slices share their backing array
		a := c.eval(e.Args[0])
		b := c.eval(e.Args[1])
		return Val{T: fmt.Sprintf("(and (= %s %s) (= %s %s))", sArr(a.T), sArr(b.T), sFld(a.T), sFld(b.T)), Typ: boolT}
	case "elem_addr":
		// elem_addr(s, i): pointer to element i of slice s
		s := c.eval(e.Args[0])
		st, ok := s.Typ.Underlying().(*types.Slice)
		if !ok {
			c.fail("elem_addr on non-slice")
		}
		i := c.toInt(c.eval(e.Args[1]))
		return Val{T: enc.elemPtr(s.T, i), Typ: types.NewPointer(st.Elem())}
	case "index_in":
		// index_in(s, p): index of the element of s that p points to (meaningful when p points into s)
		sv := c.eval(e.Args[0])
		pv := c.eval(e.Args[1])
		return Val{T: enc.sub(pIdx(pv.T), sOff(sv.T)), Typ: intT}
	case "round":
		x := c.materialize(c.eval(e.Args[0]), types.Typ[types.Float64])
		return Val{T: fmt.Sprintf("(fp.roundToIntegral RNA %s)", x.T), Typ: x.Typ}
	case "fabs":
		x := c.materialize(c.eval(e.Args[0]), types.Typ[types.Float64])
		return Val{T: fmt.Sprintf("(fp.abs %s)", x.T), Typ: x.Typ}
	case "isnan":
		x := c.materialize(c.eval(e.Args[0]), types.Typ[types.Float64])
		return Val{T: fmt.Sprintf("(fp.isNaN %s)", x.T), Typ: boolT}
	case "isinf":
		x := c.materialize(c.eval(e.Args[0]), types.Typ[types.Float64])
		return Val{T: fmt.Sprintf("(fp.isInfinite %s)", x.T), Typ: boolT}
	case "joinlen":
		// joinlen(s): number of parts of a string produced by strings.Join
		sv := c.eval(e.Args[0])
		enc.declJoin()
		return Val{T: fmt.Sprintf("(strjoin.len %s)", sv.T), Typ: intT}
	case "joinpart":
		sv := c.eval(e.Args[0])
		iv := c.toInt(c.eval(e.Args[1]))
		enc.declJoin()
		return Val{T: fmt.Sprintf("(strjoin.part %s %s)", sv.T, iv), Typ: types.Typ[types.String]}
	case "fmtint":
		xv := c.materialize(c.eval(e.Args[0]), types.Typ[types.Int64])
		bv := c.toInt(c.eval(e.Args[1]))
		enc.declFmtNum("strconv.FormatInt", types.Typ[types.Int64])
		return Val{T: fmt.Sprintf("(fmtnum.strconv.FormatInt %s %s)", xv.T, bv), Typ: types.Typ[types.String]}
	case "fmtuint":
		xv := c.materialize(c.eval(e.Args[0]), types.Typ[types.Uint64])
		bv := c.toInt(c.eval(e.Args[1]))
		enc.declFmtNum("strconv.FormatUint", types.Typ[types.Uint64])
		return Val{T: fmt.Sprintf("(fmtnum.strconv.FormatUint %s %s)", xv.T, bv), Typ: types.Typ[types.String]}
	case "match":
		// match(re, s): the regular expression re matches s (an arbitrary but fixed predicate)
		re := c.eval(e.Args[0])
		sv := c.eval(e.Args[1])
		c.enc().trusted["library contract: regexp match = an arbitrary but fixed predicate of (pattern object, string)"] = true
		return Val{T: enc.uf("re.match", []string{"Ptr", "Str"}, "Bool", re.T, sv.T), Typ: boolT}
	}
	// application of a function value (parameter of function type): the same pure
	// application symbol the code uses
	{
		var fv Val
		found := false
		if v, ok := c.bound[name]; ok {
			fv, found = v, true
		} else if v, ok := c.lookup(name); ok {
			fv, found = v, true
		}
		if found && fv.Typ != nil {
			if sig, isSig := fv.Typ.Underlying().(*types.Signature); isSig {
				sorts := []string{"Int"}
				ts := []string{fv.T}
				for i, a := range e.Args {
					av := c.eval(a)
					if av.isConst() {
						av = c.materialize(av, sig.Params().At(i).Type())
					}
					sorts = append(sorts, enc.sortOf(av.Typ))
					ts = append(ts, av.T)
				}
				rt := sig.Results().At(0).Type()
				fn := fmt.Sprintf("fapply.%s.%d", sigKey(sig), 0)
				return Val{T: enc.uf(fn, sorts, enc.sortOf(rt), ts...), Typ: rt}
			}
		}
	}
	// spec function?
	if sf := c.vc.findSpec(name, c.pkg); sf != nil {
		return c.applySpec(sf, e.Args)
	}
	c.fail("unknown function %q in spec", name)
	return Val{}
}
