package measurement

import "testing"

// Demonstration for C15 (fixed by 4803907): the unit table lists "μs" as an alias of microseconds, but sniffUnit
// stripped the final 's' of every spelling longer than two bytes before looking it up — "μs" is three bytes long — so
// the alias was never recognised and a value in μs was treated as being in an unknown unit (no conversion at all).
func TestVerifFindingMicrosecondAlias(t *testing.T) {
	v, u := Scale(1000, "μs", "ms")
	w, x := Scale(1000, "us", "ms")
	if v != w || u != x {
		t.Errorf("VERIF-FINDING: Scale(1000, \"μs\", \"ms\") = %v %q, but the same duration spelled \"us\" gives %v %q", v, u, w, x)
	}
	for _, ut := range UnitTypes {
		for _, unit := range ut.Units {
			for _, a := range unit.aliases {
				if got := ut.sniffUnit(a); got == nil || got.CanonicalName != unit.CanonicalName {
					t.Errorf("VERIF-FINDING: alias %q of unit %q is not recognised as that unit (got %v)", a, unit.CanonicalName, got)
				}
			}
		}
	}
}
