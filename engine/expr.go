package main

// Spec expression language: Go expression syntax plus ==>, <==>, forall/exists,
// old(e), ite(c,a,b). Parsed by a small Pratt parser into Expr nodes.

import (
	"fmt"
	"strings"
	"unicode"
)

type Expr interface{ String() string }

type (
	EIdent struct{ Name string }
	EInt   struct{ Text string }
	EFloat struct{ Text string }
	EStr   struct{ Val string }
	EChar  struct{ Val int }
	EUnary struct {
		Op string
		X  Expr
	}
	EBinary struct {
		Op   string
		X, Y Expr
	}
	ESelector struct {
		X   Expr
		Sel string
	}
	EIndex struct{ X, I Expr }
	ESlice struct{ X, Lo, Hi Expr }
	ECall  struct {
		Fun  Expr
		Args []Expr
	}
	EQuant struct {
		Forall bool
		Vars   []QVar
		Body   Expr
	}
	// EType is a type used in conversion position, e.g. uint64(x), []byte
	EType struct{ T *TypeExpr }
)

type QVar struct {
	Name string
	T    *TypeExpr
}

// TypeExpr is a tiny type syntax: ident | pkg.ident | *T | []T
type TypeExpr struct {
	Params []*TypeExpr // func parameter types
	Kind string // "name", "ptr", "slice", "func"
	Pkg  string
	Name string
	Elem *TypeExpr
}

func (t *TypeExpr) String() string {
	switch t.Kind {
	case "ptr":
		return "*" + t.Elem.String()
	case "slice":
		return "[]" + t.Elem.String()
	case "func":
		var ps []string
		for _, p := range t.Params {
			ps = append(ps, p.String())
		}
		return "func(" + strings.Join(ps, ", ") + ") " + t.Elem.String()
	}
	if t.Pkg != "" {
		return t.Pkg + "." + t.Name
	}
	return t.Name
}

func (e *EIdent) String() string    { return e.Name }
func (e *EInt) String() string      { return e.Text }
func (e *EFloat) String() string    { return e.Text }
func (e *EStr) String() string      { return fmt.Sprintf("%q", e.Val) }
func (e *EChar) String() string     { return fmt.Sprintf("%q", rune(e.Val)) }
func (e *EUnary) String() string    { return "(" + e.Op + e.X.String() + ")" }
func (e *EBinary) String() string   { return "(" + e.X.String() + " " + e.Op + " " + e.Y.String() + ")" }
func (e *ESelector) String() string { return e.X.String() + "." + e.Sel }
func (e *EIndex) String() string    { return e.X.String() + "[" + e.I.String() + "]" }
func (e *EType) String() string     { return e.T.String() }
func (e *ESlice) String() string {
	lo, hi := "", ""
	if e.Lo != nil {
		lo = e.Lo.String()
	}
	if e.Hi != nil {
		hi = e.Hi.String()
	}
	return e.X.String() + "[" + lo + ":" + hi + "]"
}
func (e *ECall) String() string {
	var as []string
	for _, a := range e.Args {
		as = append(as, a.String())
	}
	return e.Fun.String() + "(" + strings.Join(as, ", ") + ")"
}
func (e *EQuant) String() string {
	q := "exists"
	if e.Forall {
		q = "forall"
	}
	var vs []string
	for _, v := range e.Vars {
		vs = append(vs, v.Name+" "+v.T.String())
	}
	return "(" + q + " " + strings.Join(vs, ", ") + " :: " + e.Body.String() + ")"
}

type tok struct {
	kind string // ident int float str char op eof
	text string
	ival int
}

type lexer struct {
	src  []rune
	pos  int
	toks []tok
}

var ops = []string{"<==>", "==>", "&&", "||", "==", "!=", "<=", ">=", "<<", ">>", "&^", "::",
	"+", "-", "*", "/", "%", "&", "|", "^", "<", ">", "!", "(", ")", "[", "]", ".", ",", ":"}

func lex(s string) ([]tok, error) {
	var toks []tok
	r := []rune(s)
	i := 0
	for i < len(r) {
		c := r[i]
		if unicode.IsSpace(c) {
			i++
			continue
		}
		if unicode.IsLetter(c) || c == '_' || c == '$' {
			j := i
			for j < len(r) && (unicode.IsLetter(r[j]) || unicode.IsDigit(r[j]) || r[j] == '_' || r[j] == '$') {
				j++
			}
			toks = append(toks, tok{kind: "ident", text: string(r[i:j])})
			i = j
			continue
		}
		if unicode.IsDigit(c) {
			j := i
			isFloat := false
			if c == '0' && j+1 < len(r) && (r[j+1] == 'x' || r[j+1] == 'X') {
				j += 2
				for j < len(r) && (unicode.IsDigit(r[j]) || strings.ContainsRune("abcdefABCDEF_", r[j])) {
					j++
				}
			} else {
				for j < len(r) && (unicode.IsDigit(r[j]) || r[j] == '_') {
					j++
				}
				if j < len(r) && r[j] == '.' && j+1 < len(r) && unicode.IsDigit(r[j+1]) {
					isFloat = true
					j++
					for j < len(r) && unicode.IsDigit(r[j]) {
						j++
					}
				}
				if j < len(r) && (r[j] == 'e' || r[j] == 'E') {
					isFloat = true
					j++
					if j < len(r) && (r[j] == '+' || r[j] == '-') {
						j++
					}
					for j < len(r) && unicode.IsDigit(r[j]) {
						j++
					}
				}
			}
			k := "int"
			if isFloat {
				k = "float"
			}
			toks = append(toks, tok{kind: k, text: strings.ReplaceAll(string(r[i:j]), "_", "")})
			i = j
			continue
		}
		if c == '"' {
			j := i + 1
			var sb strings.Builder
			for j < len(r) && r[j] != '"' {
				if r[j] == '\\' && j+1 < len(r) {
					j++
					switch r[j] {
					case 'n':
						sb.WriteRune('\n')
					case 't':
						sb.WriteRune('\t')
					case '\\':
						sb.WriteRune('\\')
					case '"':
						sb.WriteRune('"')
					case '0':
						sb.WriteRune(0)
					default:
						sb.WriteRune(r[j])
					}
				} else {
					sb.WriteRune(r[j])
				}
				j++
			}
			if j >= len(r) {
				return nil, fmt.Errorf("unterminated string")
			}
			toks = append(toks, tok{kind: "str", text: sb.String()})
			i = j + 1
			continue
		}
		if c == '\'' {
			j := i + 1
			v := 0
			if j < len(r) && r[j] == '\\' {
				j++
				switch r[j] {
				case 'n':
					v = '\n'
				case 't':
					v = '\t'
				case '0':
					v = 0
				default:
					v = int(r[j])
				}
			} else if j < len(r) {
				v = int(r[j])
			}
			j++
			if j >= len(r) || r[j] != '\'' {
				return nil, fmt.Errorf("bad char literal")
			}
			toks = append(toks, tok{kind: "char", ival: v})
			i = j + 1
			continue
		}
		matched := false
		for _, op := range ops {
			if strings.HasPrefix(string(r[i:min(i+len(op), len(r))]), op) && len(op) <= len(r)-i {
				toks = append(toks, tok{kind: "op", text: op})
				i += len(op)
				matched = true
				break
			}
		}
		if !matched {
			return nil, fmt.Errorf("unexpected character %q at %d in %q", c, i, s)
		}
	}
	toks = append(toks, tok{kind: "eof"})
	return toks, nil
}

type parser struct {
	toks []tok
	pos  int
	src  string
}

func ParseExpr(s string) (e Expr, err error) {
	toks, err := lex(s)
	if err != nil {
		return nil, err
	}
	p := &parser{toks: toks, src: s}
	defer func() {
		if r := recover(); r != nil {
			if pe, ok := r.(parseErr); ok {
				err = fmt.Errorf("%s (in %q)", string(pe), s)
				return
			}
			panic(r)
		}
	}()
	e = p.expr(0)
	if p.peek().kind != "eof" {
		p.fail("unexpected %q", p.peek().text)
	}
	return e, nil
}

type parseErr string

func (p *parser) fail(f string, a ...interface{}) { panic(parseErr(fmt.Sprintf(f, a...))) }
func (p *parser) peek() tok                     { return p.toks[p.pos] }
func (p *parser) next() tok                     { t := p.toks[p.pos]; p.pos++; return t }
func (p *parser) isOp(s string) bool              { t := p.peek(); return t.kind == "op" && t.text == s }
func (p *parser) expect(s string) {
	if !p.isOp(s) {
		p.fail("expected %q, got %q", s, p.peek().text)
	}
	p.next()
}

// binary precedence; higher binds tighter
var prec = map[string]int{
	"<==>": 1, "==>": 2, "||": 3, "&&": 4,
	"==": 5, "!=": 5, "<": 5, "<=": 5, ">": 5, ">=": 5,
	"+": 6, "-": 6, "|": 6, "^": 6,
	"*": 7, "/": 7, "%": 7, "<<": 7, ">>": 7, "&": 7, "&^": 7,
}

func (p *parser) expr(minPrec int) Expr {
	lhs := p.unary()
	for {
		t := p.peek()
		if t.kind != "op" {
			break
		}
		pr, ok := prec[t.text]
		if !ok || pr < minPrec {
			break
		}
		p.next()
		var rhs Expr
		if t.text == "==>" {
			rhs = p.expr(pr) // right assoc
		} else {
			rhs = p.expr(pr + 1)
		}
		lhs = &EBinary{Op: t.text, X: lhs, Y: rhs}
	}
	return lhs
}

func (p *parser) unary() Expr {
	t := p.peek()
	if t.kind == "op" {
		switch t.text {
		case "!", "-", "^", "*", "&", "+":
			p.next()
			x := p.unary()
			return &EUnary{Op: t.text, X: x}
		}
	}
	if t.kind == "ident" && (t.text == "forall" || t.text == "exists") {
		p.next()
		q := &EQuant{Forall: t.text == "forall"}
		for {
			var names []string
			for {
				n := p.next()
				if n.kind != "ident" {
					p.fail("expected quantified variable name")
				}
				names = append(names, n.text)
				if p.isOp(",") {
					p.next()
					continue
				}
				break
			}
			ty := p.typeExpr()
			for _, n := range names {
				q.Vars = append(q.Vars, QVar{Name: n, T: ty})
			}
			if p.isOp(",") {
				p.next()
				continue
			}
			break
		}
		p.expect("::")
		q.Body = p.expr(0)
		return q
	}
	return p.postfix(p.primary())
}

func (p *parser) typeExpr() *TypeExpr {
	if p.isOp("*") {
		p.next()
		return &TypeExpr{Kind: "ptr", Elem: p.typeExpr()}
	}
	if p.isOp("[") {
		p.next()
		p.expect("]")
		return &TypeExpr{Kind: "slice", Elem: p.typeExpr()}
	}
	n := p.next()
	if n.kind != "ident" {
		p.fail("expected type, got %q", n.text)
	}
	if n.text == "map" && p.isOp("[") {
		p.next()
		k := p.typeExpr()
		p.expect("]")
		return &TypeExpr{Kind: "map", Params: []*TypeExpr{k}, Elem: p.typeExpr()}
	}
	if n.text == "func" && p.isOp("(") {
		p.next()
		ft := &TypeExpr{Kind: "func"}
		for !p.isOp(")") {
			ft.Params = append(ft.Params, p.typeExpr())
			if p.isOp(",") {
				p.next()
			}
		}
		p.expect(")")
		ft.Elem = p.typeExpr()
		return ft
	}
	if p.isOp(".") {
		p.next()
		m := p.next()
		return &TypeExpr{Kind: "name", Pkg: n.text, Name: m.text}
	}
	return &TypeExpr{Kind: "name", Name: n.text}
}

func (p *parser) primary() Expr {
	t := p.next()
	switch t.kind {
	case "int":
		return &EInt{Text: t.text}
	case "float":
		return &EFloat{Text: t.text}
	case "str":
		return &EStr{Val: t.text}
	case "char":
		return &EChar{Val: t.ival}
	case "ident":
		return &EIdent{Name: t.text}
	case "op":
		if t.text == "(" {
			// could be parenthesised type like (*T)(x): try expr
			e := p.expr(0)
			p.expect(")")
			return e
		}
		if t.text == "[" {
			// []T(x) conversion / type
			p.expect("]")
			return &EType{T: &TypeExpr{Kind: "slice", Elem: p.typeExpr()}}
		}
	}
	p.fail("unexpected tok %q", t.text)
	return nil
}

func (p *parser) postfix(x Expr) Expr {
	for {
		switch {
		case p.isOp("."):
			p.next()
			n := p.next()
			if n.kind != "ident" {
				p.fail("expected selector")
			}
			x = &ESelector{X: x, Sel: n.text}
		case p.isOp("["):
			p.next()
			var lo, hi Expr
			if p.isOp(":") {
				p.next()
				if !p.isOp("]") {
					hi = p.expr(0)
				}
				p.expect("]")
				x = &ESlice{X: x, Lo: nil, Hi: hi}
				continue
			}
			lo = p.expr(0)
			if p.isOp(":") {
				p.next()
				if !p.isOp("]") {
					hi = p.expr(0)
				}
				p.expect("]")
				x = &ESlice{X: x, Lo: lo, Hi: hi}
				continue
			}
			p.expect("]")
			x = &EIndex{X: x, I: lo}
		case p.isOp("("):
			p.next()
			var args []Expr
			for !p.isOp(")") {
				args = append(args, p.expr(0))
				if p.isOp(",") {
					p.next()
				}
			}
			p.expect(")")
			x = &ECall{Fun: x, Args: args}
		default:
			return x
		}
	}
}
