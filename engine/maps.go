package main

import (
	"golang.org/x/tools/go/ssa"
	"fmt"
	"go/types"
)

// Map memories: per map type, MD_<t> : Array Int (Array K Bool) (domain) and
// MV_<t> : Array Int (Array K V) (values), indexed by the map object reference.

func (e *Encoder) mapMems(mt *types.Map) (dom, val string) {
	k := typeKey(mt)
	dom, val = "MD_"+k, "MV_"+k
	if e.mapMemSorts == nil {
		e.mapMemSorts = map[string]string{}
	}
	if _, ok := e.mems[dom]; !ok {
		e.mems[dom] = mt
		e.mems[val] = mt
		e.memOrder = append(e.memOrder, dom, val)
		ks, vs := e.sortOf(mt.Key()), e.sortOf(mt.Elem())
		e.mapMemSorts[dom] = fmt.Sprintf("(Array Int (Array %s Bool))", ks)
		e.mapMemSorts[val] = fmt.Sprintf("(Array Int (Array %s %s))", ks, vs)
	}
	return
}

func (vc *VC) mapMemAt(st *State, name string) string {
	if v, ok := st.mem[name]; ok {
		return v
	}
	return vc.resolveEpoch(st.epoch, name, vc.enc.mapMemSorts[name])
}

func (vc *VC) mapHas(st *State, mt *types.Map, m, k string) string {
	d, _ := vc.enc.mapMems(mt)
	return fmt.Sprintf("(and (not (= %s 0)) (select (select %s %s) %s))", m, vc.mapMemAt(st, d), m, k)
}

func (vc *VC) mapLookup(st *State, mt *types.Map, m, k string) string {
	_, v := vc.enc.mapMems(mt)
	return fmt.Sprintf("(ite %s (select (select %s %s) %s) %s)", vc.mapHas(st, mt, m, k), vc.mapMemAt(st, v), m, k, vc.enc.zero(mt.Elem()))
}

// maplenDecl declares the length function of a map type's domains (shared by mapLen and the update lemmas).
func (vc *VC) maplenDecl(mt *types.Map) string {
	e := vc.enc
	ks := e.sortOf(mt.Key())
	fn := "maplen." + typeKey(mt)
	e.addPre(fn, fmt.Sprintf("(declare-fun %s ((Array %s Bool)) %s)", fn, ks, e.I()))
	e.addPre(fn+".ax", fmt.Sprintf("(assert (forall ((d (Array %s Bool))) (! (>= (%s d) 0) :pattern ((%s d)))))\n(assert (= (%s ((as const (Array %s Bool)) false)) 0))", ks, fn, fn, fn, ks))
	return fn
}

func (vc *VC) mapStore(st *State, mt *types.Map, m, k, v string) {
	d, vv := vc.enc.mapMems(mt)
	dcur, vcur := vc.mapMemAt(st, d), vc.mapMemAt(st, vv)
	// length: inserting an absent key adds one, overwriting a present key keeps the length
	if vc.usesMapLen() {
		fn := vc.maplenDecl(mt)
		ks := vc.enc.sortOf(mt.Key())
		dold := vc.def("mapdom.old", fmt.Sprintf("(Array %s Bool)", ks), fmt.Sprintf("(select %s %s)", dcur, m))
		dnew := vc.def("mapdom.new", fmt.Sprintf("(Array %s Bool)", ks), fmt.Sprintf("(store %s %s true)", dold, k))
		vc.emit(fmt.Sprintf("(assert (= (%s %s) (ite (select %s %s) (%s %s) (+ (%s %s) 1))))", fn, dnew, dold, k, fn, dold, fn, dold))
	}
	st.mem[d] = vc.def(d, vc.enc.mapMemSorts[d], fmt.Sprintf("(store %s %s (store (select %s %s) %s true))", dcur, m, dcur, m, k))
	st.mem[vv] = vc.def(vv, vc.enc.mapMemSorts[vv], fmt.Sprintf("(store %s %s (store (select %s %s) %s %s))", vcur, m, vcur, m, k, v))
}

func (vc *VC) mapDelete(st *State, mt *types.Map, m, k string) {
	d, _ := vc.enc.mapMems(mt)
	dcur := vc.mapMemAt(st, d)
	if vc.usesMapLen() {
		fn := vc.maplenDecl(mt)
		ks := vc.enc.sortOf(mt.Key())
		dold := vc.def("mapdom.old", fmt.Sprintf("(Array %s Bool)", ks), fmt.Sprintf("(select %s %s)", dcur, m))
		dnew := vc.def("mapdom.new", fmt.Sprintf("(Array %s Bool)", ks), fmt.Sprintf("(store %s %s false)", dold, k))
		vc.emit(fmt.Sprintf("(assert (= (%s %s) (ite (select %s %s) (- (%s %s) 1) (%s %s))))", fn, dnew, dold, k, fn, dold, fn, dold))
	}
	st.mem[d] = vc.def(d, vc.enc.mapMemSorts[d], fmt.Sprintf("(store %s %s (store (select %s %s) %s false))", dcur, m, dcur, m, k))
}

func (vc *VC) mapInit(st *State, mt *types.Map, obj string) {
	d, _ := vc.enc.mapMems(mt)
	dcur := vc.mapMemAt(st, d)
	ks := vc.enc.sortOf(mt.Key())
	st.mem[d] = vc.def(d, vc.enc.mapMemSorts[d], fmt.Sprintf("(store %s %s ((as const (Array %s Bool)) false))", dcur, obj, ks))
}

func (vc *VC) mapLen(st *State, mt *types.Map, m string) string {
	d, _ := vc.enc.mapMems(mt)
	e := vc.enc
	fn := vc.maplenDecl(mt)
	return fmt.Sprintf("(ite (= %s 0) %s (%s (select %s %s)))", m, e.ilit(0), fn, vc.mapMemAt(st, d), m)
}

// usesMapLen: does the function under verification take the length of a map? Only then are the length
// update lemmas emitted at map writes (they slow unrelated map proofs down noticeably).
func (vc *VC) usesMapLen() bool {
	if vc.mapLenUse != 0 {
		return vc.mapLenUse > 0
	}
	vc.mapLenUse = -1
	if vc.fn == nil {
		return false
	}
	for _, b := range vc.fn.Blocks {
		for _, in := range b.Instrs {
			if c, ok := in.(*ssa.Call); ok {
				if bi, ok := c.Call.Value.(*ssa.Builtin); ok && bi.Name() == "len" && len(c.Call.Args) == 1 {
					if _, isMap := c.Call.Args[0].Type().Underlying().(*types.Map); isMap {
						vc.mapLenUse = 1
					}
				}
			}
		}
	}
	return vc.mapLenUse > 0
}
