package symbolizer

import (
	"testing"

	"github.com/google/pprof/internal/proftest"
	"github.com/google/pprof/profile"
)

// Demonstration for C12 (pre-fix code), obligation symbolizer.doLocalSymbolize$1#ensures.freshid: new functions get
// the id len(prof.Function)+1. In a valid profile whose function ids are sparse (here one function with id 2,
// from a partly symbolized mapping), the first function added by local symbolization also gets id 2, so the
// symbolized profile has two functions with the same id and no longer passes CheckValid.
func TestVerifFindingSymbolizeDuplicateFunctionID(t *testing.T) {
	m := &profile.Mapping{ID: 1, Start: 500, Limit: 6000, File: filePath, BuildID: buildID}
	old := &profile.Function{ID: 2, Name: "already", SystemName: "already", Filename: "a.c"}
	m2 := &profile.Mapping{ID: 2, Start: 0x8000, Limit: 0x9000, File: "/other", HasFunctions: true}
	l1 := &profile.Location{ID: 1, Mapping: m, Address: 1000}
	l2 := &profile.Location{ID: 2, Mapping: m2, Address: 0x8000, Line: []profile.Line{{Function: old, Line: 3}}}
	p := &profile.Profile{
		SampleType: []*profile.ValueType{{Type: "cpu", Unit: "cycles"}}, PeriodType: &profile.ValueType{Type: "cpu", Unit: "ms"}, Period: 1,
		Sample:   []*profile.Sample{{Location: []*profile.Location{l1, l2}, Value: []int64{1}}},
		Location: []*profile.Location{l1, l2}, Mapping: []*profile.Mapping{m, m2}, Function: []*profile.Function{old},
	}
	if err := p.CheckValid(); err != nil {
		t.Fatalf("input profile must be valid: %v", err)
	}
	if err := doLocalSymbolize(p, false, false, mockObjTool{}, &proftest.TestUI{T: t}); err != nil {
		t.Fatal(err)
	}
	if err := p.CheckValid(); err != nil {
		ids := []uint64{}
		for _, f := range p.Function {
			ids = append(ids, f.ID)
		}
		t.Errorf("VERIF-FINDING: profile invalid after symbolization: %v (function ids %v)", err, ids)
	}
}
