package main

// Sorts, memory model and value helpers of the VC generator.
//
// Memory model (DESIGN 3.1, refined): a pointer is (obj, idx, fld). obj identifies
// an allocation (0 = nil, negative = package-level variable), idx an element of a
// slice backing array, fld a field path inside a struct (0 = the whole object;
// child = parent*256 + fieldIndex+1). There is one memory map per Go cell type,
// M_<type> : Array Ptr sort(type); structs and arrays are stored field/element-wise.

import (
	"fmt"
	"go/constant"
	"go/types"
	"math/big"
	"sort"
	"strings"
)

type Val struct {
	T     string     // SMT term
	Typ   types.Type // Go type
	Elems []Val      // tuple components (Typ is *types.Tuple or nil)
	Mem   string     // for pointers produced by FieldAddr on a private field: the field's memory
	// untyped constant (spec side only)
	Const constant.Value
	// Cell: T is the address of a captured variable; a contract name denotes its content in the state of evaluation
	Cell bool
}

func (v Val) isConst() bool { return v.Const != nil }

type Encoder struct {
	prog     *Prog
	mode     string // "int" | "bv"
	pre      []string
	preKeys  []string
	preSeen  map[string]bool
	mems     map[string]types.Type // memory name -> cell type
	memOrder []string
	structs  map[string]*types.Struct
	strLits  map[string]string
	strOrder []string
	ctr      int
	typeTags map[string]int
	specDone map[string]bool
	trusted  map[string]bool // external contracts / axioms used
	notes    map[string]bool
	ufuncs   map[string]bool
	mapMemSorts map[string]string
	absDiv      bool
	absFloat    bool
}

func NewEncoder(p *Prog, mode string) *Encoder {
	e := &Encoder{prog: p, mode: mode, preSeen: map[string]bool{}, mems: map[string]types.Type{},
		structs: map[string]*types.Struct{}, strLits: map[string]string{}, typeTags: map[string]int{},
		specDone: map[string]bool{}, trusted: map[string]bool{}, notes: map[string]bool{}, ufuncs: map[string]bool{}}
	return e
}

func (e *Encoder) fresh(prefix string) string {
	e.ctr++
	return fmt.Sprintf("%s!%d", prefix, e.ctr)
}

func (e *Encoder) addPre(key, decl string) {
	if e.preSeen[key] {
		return
	}
	e.preSeen[key] = true
	e.pre = append(e.pre, decl)
	e.preKeys = append(e.preKeys, key)
}

func (e *Encoder) bv() bool { return e.mode == "bv" }

// I is the sort of Go's int (indices, lengths).
func (e *Encoder) I() string { return "Int" }

// isBV: integers of type t are bit-vectors. In "arith bv" functions every integer
// type except Go's int (indices, lengths: mathematical, range-constrained) is exact.
func (e *Encoder) isBV(t types.Type) bool {
	if !e.bv() {
		return false
	}
	b, ok := t.Underlying().(*types.Basic)
	if !ok || b.Info()&types.IsInteger == 0 {
		return false
	}
	return b.Kind() != types.Int && b.Kind() != types.UntypedInt
}

// ilit: literal of the index sort
func (e *Encoder) ilit(n int64) string {
	if n < 0 {
		return fmt.Sprintf("(- %d)", -n)
	}
	return fmt.Sprint(n)
}

// tlit: literal of integer type t
func (e *Encoder) tlit(n *big.Int, t types.Type) string {
	if e.isBV(t) {
		w, _ := intWidth(t.Underlying().(*types.Basic))
		m := new(big.Int).Mod(n, new(big.Int).Lsh(big.NewInt(1), uint(w)))
		return fmt.Sprintf("(_ bv%s %d)", m.String(), w)
	}
	if n.Sign() < 0 {
		return fmt.Sprintf("(- %s)", new(big.Int).Neg(n).String())
	}
	return n.String()
}

func intWidth(b *types.Basic) (w int, signed bool) {
	switch b.Kind() {
	case types.Int8:
		return 8, true
	case types.Int16:
		return 16, true
	case types.Int32, types.UntypedRune:
		return 32, true
	case types.Int64, types.Int, types.UntypedInt:
		return 64, true
	case types.Uint8:
		return 8, false
	case types.Uint16:
		return 16, false
	case types.Uint32:
		return 32, false
	case types.Uint64, types.Uint, types.Uintptr:
		return 64, false
	}
	return 0, false
}

func isInteger(t types.Type) bool {
	b, ok := t.Underlying().(*types.Basic)
	return ok && b.Info()&types.IsInteger != 0
}
func isUnsigned(t types.Type) bool {
	b, ok := t.Underlying().(*types.Basic)
	return ok && b.Info()&types.IsUnsigned != 0
}
func isFloat(t types.Type) bool {
	b, ok := t.Underlying().(*types.Basic)
	return ok && b.Info()&types.IsFloat != 0
}
func isString(t types.Type) bool {
	b, ok := t.Underlying().(*types.Basic)
	return ok && b.Info()&types.IsString != 0
}
func isBool(t types.Type) bool {
	b, ok := t.Underlying().(*types.Basic)
	return ok && b.Info()&types.IsBoolean != 0
}

const fp64 = "(_ FloatingPoint 11 53)"
const fp32 = "(_ FloatingPoint 8 24)"

func (e *Encoder) basePrelude() {
	I := e.I()
	e.addPre("Str", "(declare-sort Str 0)")
	e.addPre("Opaque", "(declare-sort Opaque 0)")
	e.addPre("Ptr", fmt.Sprintf("(declare-datatypes ((Ptr 0)) (((mk-ptr (p.obj Int) (p.idx %s) (p.fld Int)))))", I))
	e.addPre("Slice", fmt.Sprintf("(declare-datatypes ((Slice 0)) (((mk-slice (s.arr Int) (s.off %s) (s.len %s) (s.cap %s) (s.fld Int)))))", I, I, I))
	e.addPre("Iface", "(declare-datatypes ((Iface 0)) (((mk-iface (i.tag Int) (i.val Int)))))")
	e.addPre("strlen", fmt.Sprintf("(declare-fun strlen (Str) %s)", I))
	e.addPre("strcat", "(declare-fun strcat (Str Str) Str)")
	e.addPre("strlt", "(declare-fun strlt (Str Str) Bool)")
	e.addPre("strempty", "(declare-const strempty Str)")
	{
		e.addPre("strax", "(assert (= (strlen strempty) 0))\n(assert (forall ((s Str)) (! (>= (strlen s) 0) :pattern ((strlen s)))))\n(assert (forall ((s Str)) (! (=> (= (strlen s) 0) (= s strempty)) :pattern ((strlen s)))))")
		// separate entry: the closure of Str under concatenation has only infinite models, which makes
		// satisfiability (cover) queries that do not concatenate anything undecidable for the solvers
		e.addPre("strcat.ax", "(assert (forall ((a Str) (b Str)) (! (= (strlen (strcat a b)) (+ (strlen a) (strlen b))) :pattern ((strcat a b)))))")
		e.addPre("tdiv", "(define-fun tdiv ((x Int) (y Int)) Int (ite (>= x 0) (ite (> y 0) (div x y) (- (div x (- y)))) (ite (> y 0) (- (div (- x) y)) (div (- x) (- y)))))\n(define-fun tmod ((x Int) (y Int)) Int (- x (* y (tdiv x y))))")
	}
	e.addPre("strlt.ax", "(assert (forall ((a Str)) (! (not (strlt a a)) :pattern ((strlt a a)))))\n"+
		"(assert (forall ((a Str) (b Str)) (! (or (strlt a b) (strlt b a) (= a b)) :pattern ((strlt a b)))))\n"+
		"(assert (forall ((a Str) (b Str)) (! (not (and (strlt a b) (strlt b a))) :pattern ((strlt a b)))))\n"+
		"(assert (forall ((a Str) (b Str) (c Str)) (! (=> (and (strlt a b) (strlt b c)) (strlt a c)) :pattern ((strlt a b) (strlt b c)))))")
	e.addPre("nilptr", "(define-fun nil.ptr () Ptr (mk-ptr 0 0 0))")
	e.addPre("nilslice", "(define-fun nil.slice () Slice (mk-slice 0 0 0 0 0))")
	e.addPre("niliface", "(define-fun nil.iface () Iface (mk-iface 0 0))")
}

// sigKey: a function signature up to parameter names.
func sigKey(sig *types.Signature) string {
	var ps []string
	for i := 0; i < sig.Params().Len(); i++ {
		ps = append(ps, typeKey(sig.Params().At(i).Type()))
	}
	var rs []string
	for i := 0; i < sig.Results().Len(); i++ {
		rs = append(rs, typeKey(sig.Results().At(i).Type()))
	}
	return "f." + strings.Join(ps, ".") + ".to." + strings.Join(rs, ".")
}

func typeKey(t types.Type) string {
	s := types.TypeString(t, func(p *types.Package) string { return p.Name() })
	var sb strings.Builder
	for _, r := range s {
		switch {
		case r >= 'a' && r <= 'z', r >= 'A' && r <= 'Z', r >= '0' && r <= '9', r == '_', r == '.':
			sb.WriteRune(r)
		case r == '*':
			sb.WriteString("P.")
		case r == '[':
			sb.WriteString("L")
		case r == ']':
			sb.WriteString("R")
		case r == ' ':
			sb.WriteString("_")
		default:
			sb.WriteString(fmt.Sprintf("x%x", r))
		}
	}
	return sb.String()
}

// sortOf maps a Go type to an SMT sort.
func (e *Encoder) sortOf(t types.Type) string {
	switch u := t.Underlying().(type) {
	case *types.Basic:
		switch {
		case u.Info()&types.IsBoolean != 0:
			return "Bool"
		case u.Info()&types.IsInteger != 0:
			if e.isBV(t) {
				w, _ := intWidth(u)
				return fmt.Sprintf("(_ BitVec %d)", w)
			}
			return "Int"
		case u.Info()&types.IsFloat != 0:
			if u.Kind() == types.Float32 {
				return fp32
			}
			return fp64
		case u.Info()&types.IsString != 0:
			return "Str"
		case u.Kind() == types.UnsafePointer:
			return "Opaque"
		case u.Kind() == types.UntypedNil:
			return "Ptr"
		}
	case *types.Pointer:
		return "Ptr"
	case *types.Slice:
		return "Slice"
	case *types.Map, *types.Chan, *types.Signature:
		return "Int"
	case *types.Interface:
		return "Iface"
	case *types.Struct:
		return e.structSort(t)
	case *types.Array:
		return fmt.Sprintf("(Array %s %s)", e.I(), e.sortOf(u.Elem()))
	}
	return "Opaque"
}

func (e *Encoder) structSort(t types.Type) string {
	st := t.Underlying().(*types.Struct)
	key := "S_" + typeKey(t)
	if _, ok := e.structs[key]; ok {
		return key
	}
	e.structs[key] = st
	if st.NumFields() == 0 {
		e.addPre(key, fmt.Sprintf("(declare-datatypes ((%s 0)) (((mk-%s))))", key, key))
		return key
	}
	var fs []string
	for i := 0; i < st.NumFields(); i++ {
		fs = append(fs, fmt.Sprintf("(%s.%d %s)", key, i, e.sortOf(st.Field(i).Type())))
	}
	e.addPre(key, fmt.Sprintf("(declare-datatypes ((%s 0)) (((mk-%s %s))))", key, key, strings.Join(fs, " ")))
	return key
}

// memFor returns the name of the memory holding cells of type t.
func (e *Encoder) memFor(t types.Type) string {
	name := "M_" + typeKey(t)
	if _, ok := e.mems[name]; !ok {
		e.mems[name] = t
		e.memOrder = append(e.memOrder, name)
	}
	return name
}

func (e *Encoder) registerMem(name string, t types.Type) {
	if _, ok := e.mems[name]; !ok {
		e.mems[name] = t
		e.memOrder = append(e.memOrder, name)
	}
}

// memForField: memory holding field i of struct type st (private field memory, or the generic one).
func (e *Encoder) memForField(st types.Type, i int) string {
	ft := st.Underlying().(*types.Struct).Field(i).Type()
	if name := e.prog.fieldMem(st, i); name != "" {
		if _, ok := e.mems[name]; !ok {
			e.mems[name] = ft
			e.memOrder = append(e.memOrder, name)
		}
		return name
	}
	return e.memFor(ft)
}

func (e *Encoder) memSort(t types.Type) string {
	return fmt.Sprintf("(Array Ptr %s)", e.sortOf(t))
}

// zero value term
func (e *Encoder) zero(t types.Type) string {
	switch u := t.Underlying().(type) {
	case *types.Basic:
		switch {
		case u.Info()&types.IsBoolean != 0:
			return "false"
		case u.Info()&types.IsInteger != 0:
			return e.tlit(big.NewInt(0), t)
		case u.Info()&types.IsFloat != 0:
			if u.Kind() == types.Float32 {
				return "(_ +zero 8 24)"
			}
			return "(_ +zero 11 53)"
		case u.Info()&types.IsString != 0:
			return "strempty"
		case u.Kind() == types.UntypedNil:
			return "nil.ptr"
		}
	case *types.Pointer:
		return "nil.ptr"
	case *types.Slice:
		return "nil.slice"
	case *types.Map, *types.Chan, *types.Signature:
		return "0"
	case *types.Interface:
		return "nil.iface"
	case *types.Struct:
		s := e.structSort(t)
		if u.NumFields() == 0 {
			return "mk-" + s
		}
		var fs []string
		for i := 0; i < u.NumFields(); i++ {
			fs = append(fs, e.zero(u.Field(i).Type()))
		}
		return fmt.Sprintf("(mk-%s %s)", s, strings.Join(fs, " "))
	case *types.Array:
		return fmt.Sprintf("((as const %s) %s)", e.sortOf(t), e.zero(u.Elem()))
	}
	e.addPre("opaque.zero", "(declare-const opaque.zero Opaque)")
	return "opaque.zero"
}

func (e *Encoder) strLit(s string) string {
	if s == "" {
		return "strempty"
	}
	if n, ok := e.strLits[s]; ok {
		return n
	}
	n := fmt.Sprintf("strlit!%d", len(e.strLits))
	e.strLits[s] = n
	e.strOrder = append(e.strOrder, s)
	return n
}

// strLitDecls returns declarations for the string literals mentioned in text
// (distinctness, lengths, lexicographic order among them).
func (e *Encoder) strLitDecls(text string) []string {
	var out []string
	var used []string
	for _, s := range e.strOrder {
		if mentions(text, e.strLits[s]) {
			used = append(used, s)
		}
	}
	if len(used) == 0 {
		return nil
	}
	names := []string{"strempty"}
	for _, s := range used {
		n := e.strLits[s]
		out = append(out, fmt.Sprintf("(declare-const %s Str) ; %q", n, s))
		out = append(out, fmt.Sprintf("(assert (= (strlen %s) %d))", n, len(s)))
		names = append(names, n)
	}
	out = append(out, fmt.Sprintf("(assert (distinct %s))", strings.Join(names, " ")))
	if mentions(text, "strlt") {
		lits := append([]string{}, used...)
		sort.Strings(lits)
		prev := "strempty"
		for _, s := range lits {
			out = append(out, fmt.Sprintf("(assert (strlt %s %s))", prev, e.strLits[s]))
			prev = e.strLits[s]
		}
	}
	return out
}

// strLitFacts: facts relating literals through declared string functions (emitted after the prelude).
func (e *Encoder) strLitFacts(text string) []string {
	var out []string
	var used []string
	for _, s := range e.strOrder {
		if mentions(text, e.strLits[s]) {
			used = append(used, s)
		}
	}
	if mentions(text, "strsub") {
		// sub-strings of literals that are themselves literals of the query
		for _, a := range used {
			for _, b := range used {
				if len(b) >= len(a) {
					continue
				}
				if strings.HasSuffix(a, b) {
					out = append(out, fmt.Sprintf("(assert (= (strsub %s %d %d) %s))", e.strLits[a], len(a)-len(b), len(a), e.strLits[b]))
				}
				if strings.HasPrefix(a, b) {
					out = append(out, fmt.Sprintf("(assert (= (strsub %s 0 %d) %s))", e.strLits[a], len(b), e.strLits[b]))
				}
			}
		}
	}
	return out
}

func (e *Encoder) typeTag(t types.Type) int {
	k := typeKey(t)
	if n, ok := e.typeTags[k]; ok {
		return n
	}
	n := len(e.typeTags) + 1
	e.typeTags[k] = n
	return n
}

// ---- pointer / slice term helpers (with light simplification) ----

func mkPtr(obj, idx, fld string) string { return fmt.Sprintf("(mk-ptr %s %s %s)", obj, idx, fld) }

// curDefs maps defined names to their defining terms when those are constructor
// applications, so that projections see through definitions. Set per VC (generation is sequential).
var curDefs = map[string]string{}

func splitApp(t, head string, n int) ([]string, bool) {
	if d, ok := curDefs[t]; ok {
		t = d
	}
	pre := "(" + head + " "
	if !strings.HasPrefix(t, pre) || !strings.HasSuffix(t, ")") {
		return nil, false
	}
	body := t[len(pre) : len(t)-1]
	var parts []string
	depth := 0
	start := 0
	for i := 0; i < len(body); i++ {
		switch body[i] {
		case '(':
			depth++
		case ')':
			depth--
			if depth < 0 {
				return nil, false
			}
		case ' ':
			if depth == 0 {
				if i > start {
					parts = append(parts, body[start:i])
				}
				start = i + 1
			}
		}
	}
	if start < len(body) {
		parts = append(parts, body[start:])
	}
	if depth != 0 || len(parts) != n {
		return nil, false
	}
	return parts, true
}

func pObj(p string) string {
	if p == "nil.ptr" {
		return "0"
	}
	if a, ok := splitApp(p, "mk-ptr", 3); ok {
		return a[0]
	}
	return "(p.obj " + p + ")"
}
func pIdx(p string) string {
	if a, ok := splitApp(p, "mk-ptr", 3); ok {
		return a[1]
	}
	return "(p.idx " + p + ")"
}
func pFld(p string) string {
	if p == "nil.ptr" {
		return "0"
	}
	if a, ok := splitApp(p, "mk-ptr", 3); ok {
		return a[2]
	}
	return "(p.fld " + p + ")"
}
func sArr(s string) string {
	if s == "nil.slice" {
		return "0"
	}
	if a, ok := splitApp(s, "mk-slice", 5); ok {
		return a[0]
	}
	return "(s.arr " + s + ")"
}
func sOff(s string) string {
	if a, ok := splitApp(s, "mk-slice", 5); ok {
		return a[1]
	}
	return "(s.off " + s + ")"
}
func sLen(s string) string {
	if a, ok := splitApp(s, "mk-slice", 5); ok {
		return a[2]
	}
	return "(s.len " + s + ")"
}
func sCap(s string) string {
	if a, ok := splitApp(s, "mk-slice", 5); ok {
		return a[3]
	}
	return "(s.cap " + s + ")"
}
func sFld(s string) string {
	if s == "nil.slice" {
		return "0"
	}
	if a, ok := splitApp(s, "mk-slice", 5); ok {
		return a[4]
	}
	return "(s.fld " + s + ")"
}

func childFld(parent string, fieldIndex int) string {
	if parent == "0" {
		return fmt.Sprint(fieldIndex + 1)
	}
	var n int
	if _, err := fmt.Sscanf(parent, "%d", &n); err == nil && fmt.Sprint(n) == parent {
		return fmt.Sprint(n*256 + fieldIndex + 1)
	}
	return fmt.Sprintf("(+ (* %s 256) %d)", parent, fieldIndex+1)
}

func (e *Encoder) fieldPtr(p string, fieldIndex int) string {
	return mkPtr(pObj(p), pIdx(p), childFld(pFld(p), fieldIndex))
}

// elemPtr: pointer to element i (term of sort I) of slice s
func (e *Encoder) elemPtr(s, i string) string {
	if _, ok := splitApp(s, "mk-slice", 5); ok {
		return mkPtr(sArr(s), e.add(sOff(s), i), sFld(s))
	}
	// an uninterpreted wrapper gives quantified facts about s[i] a clean E-matching pattern
	e.addPre("idx", "(declare-fun idx (Slice Int) Ptr)\n(assert (forall ((s Slice) (i Int)) (! (= (idx s i) (mk-ptr (s.arr s) (+ (s.off s) i) (s.fld s))) :pattern ((idx s i)))))")
	return "(idx " + s + " " + i + ")"
}

func (e *Encoder) add(a, b string) string {
	if a == "0" {
		return b
	}
	if b == "0" {
		return a
	}
	return "(+ " + a + " " + b + ")"
}
func (e *Encoder) sub(a, b string) string {
	if b == "0" {
		return a
	}
	return "(- " + a + " " + b + ")"
}
func (e *Encoder) sle(a, b string) string { return "(<= " + a + " " + b + ")" }
func (e *Encoder) slt(a, b string) string { return "(< " + a + " " + b + ")" }

func and(xs ...string) string {
	var ys []string
	for _, x := range xs {
		if x == "true" || x == "" {
			continue
		}
		if x == "false" {
			return "false"
		}
		ys = append(ys, x)
	}
	switch len(ys) {
	case 0:
		return "true"
	case 1:
		return ys[0]
	}
	return "(and " + strings.Join(ys, " ") + ")"
}
func or(xs ...string) string {
	var ys []string
	for _, x := range xs {
		if x == "false" || x == "" {
			continue
		}
		if x == "true" {
			return "true"
		}
		ys = append(ys, x)
	}
	switch len(ys) {
	case 0:
		return "false"
	case 1:
		return ys[0]
	}
	return "(or " + strings.Join(ys, " ") + ")"
}
func not(x string) string {
	if x == "true" {
		return "false"
	}
	if x == "false" {
		return "true"
	}
	if strings.HasPrefix(x, "(not ") && strings.HasSuffix(x, ")") {
		if a, ok := splitApp(x, "not", 1); ok {
			return a[0]
		}
	}
	return "(not " + x + ")"
}
func implies(a, b string) string {
	if a == "true" {
		return b
	}
	if b == "true" {
		return "true"
	}
	return "(=> " + a + " " + b + ")"
}

// rangeFact: type range of integer-typed term in int mode
func (e *Encoder) rangeFact(t string, typ types.Type) string {
	b, ok := typ.Underlying().(*types.Basic)
	if !ok || b.Info()&types.IsInteger == 0 || e.isBV(typ) {
		return "true"
	}
	w, signed := intWidth(b)
	if signed {
		lo := new(big.Int).Neg(new(big.Int).Lsh(big.NewInt(1), uint(w-1)))
		hi := new(big.Int).Sub(new(big.Int).Lsh(big.NewInt(1), uint(w-1)), big.NewInt(1))
		return fmt.Sprintf("(and (<= (- %s) %s) (<= %s %s))", new(big.Int).Neg(lo).String(), t, t, hi.String())
	}
	hi := new(big.Int).Sub(new(big.Int).Lsh(big.NewInt(1), uint(w)), big.NewInt(1))
	return fmt.Sprintf("(and (<= 0 %s) (<= %s %s))", t, t, hi.String())
}

// wellFormed: structural facts about a value of type typ that hold for every Go value
// (slice header sanity, pointer normal form). wm is the allocation watermark.
func (e *Encoder) wellFormed(t string, typ types.Type, wm string) string {
	switch u := typ.Underlying().(type) {
	case *types.Basic:
		if u.Info()&types.IsInteger != 0 {
			return e.rangeFact(t, typ)
		}
	case *types.Pointer:
		fs := []string{fmt.Sprintf("(<= (p.obj %s) %s)", t, wm),
			fmt.Sprintf("(=> (= (p.obj %s) 0) (= %s nil.ptr))", t, t),
			fmt.Sprintf("(>= (p.fld %s) 0)", t)}
		return and(fs...)
	case *types.Slice:
		z := "0"
		maxlen := e.ilit(1 << 40) // lengths are bounded well below 2^63 (address space)
		return and(
			e.sle(z, sLen(t)), e.sle(sLen(t), sCap(t)), e.sle(z, sOff(t)),
			e.sle(sCap(t), maxlen), e.sle(sOff(t), maxlen),
			fmt.Sprintf("(<= (s.arr %s) %s)", t, wm),
			fmt.Sprintf("(>= (s.fld %s) 0)", t),
			fmt.Sprintf("(=> (= (s.arr %s) 0) (= %s nil.slice))", t, t))
	case *types.Map, *types.Chan:
		return fmt.Sprintf("(<= %s %s)", t, wm)
	case *types.Struct:
		s := e.structSort(typ)
		var fs []string
		for i := 0; i < u.NumFields(); i++ {
			f := e.wellFormed(fmt.Sprintf("(%s.%d %s)", s, i, t), u.Field(i).Type(), wm)
			fs = append(fs, f)
		}
		return and(fs...)
	}
	return "true"
}
