package main

// Deterministic module functions. A pprof function without a contract whose parameters and results are plain values
// (strings, numbers, booleans) and whose body — transitively — writes nothing that outlives the call, reads no
// mutable package variable, calls only deterministic functions, starts no goroutine and never ranges over a map is a
// mathematical function of its arguments. Calls of such a function are encoded as applications of one uninterpreted
// function per callee instead of unconstrained results ("same arguments, same result"). The conditions are checked
// on the SSA of the real code on every run; nothing about the value of the result is assumed.

import (
	"fmt"
	"go/types"
	"strings"

	"golang.org/x/tools/go/ssa"
)

var deterministicExternPrefixes = []string{
	"strings.", "(*strings.Builder).", "strconv.", "math.", "math/bits.", "unicode.", "unicode/utf8.", "path.", "bytes.", "errors.New",
	"fmt.Sprint", "fmt.Sprintf", "fmt.Sprintln", "fmt.Errorf", "sort.Strings", "sort.Ints", "crypto/sha256.Sum256", "(encoding/binary.littleEndian).", "(encoding/binary.bigEndian).",
	"path/filepath.ToSlash", "path/filepath.FromSlash", "path/filepath.Base", "path/filepath.Dir", "path/filepath.Ext", "path/filepath.Clean", "path/filepath.Join", "path/filepath.SplitList", "path/filepath.Split", "path/filepath.IsAbs",
	"(*regexp.Regexp).MatchString", "(*regexp.Regexp).FindStringSubmatch", "(*regexp.Regexp).ReplaceAllString", "(*regexp.Regexp).FindStringSubmatchIndex", "(*regexp.Regexp).FindStringIndex", "(*regexp.Regexp).FindString",
}

func isValueType(t types.Type) bool {
	b, ok := t.Underlying().(*types.Basic)
	return ok && b.Kind() != types.UnsafePointer && b.Kind() != types.Invalid
}

func (p *Prog) isFunctional(f *ssa.Function) bool {
	if f == nil || f.Blocks == nil || f.Pkg == nil || !strings.HasPrefix(f.Pkg.Pkg.Path(), modPath) {
		return false
	}
	sig := f.Signature
	if sig.Recv() != nil || sig.Variadic() || sig.Results().Len() == 0 {
		return false
	}
	for i := 0; i < sig.Params().Len(); i++ {
		if !isValueType(sig.Params().At(i).Type()) {
			return false
		}
	}
	for i := 0; i < sig.Results().Len(); i++ {
		if !isValueType(sig.Results().At(i).Type()) {
			return false
		}
	}
	ms := p.ModSetOf(f)
	if ms.all {
		return false
	}
	seen := map[*ssa.Function]bool{}
	if !p.bodyDeterministic(f, seen) {
		return false
	}
	// With value parameters only, the memory such a function can reach is what it allocates itself (or what the
	// deterministic library functions it calls return) plus what immutable package variables refer to. Unless it
	// loads a package variable of reference type, every write it performs therefore hits fresh memory.
	for g := range seen {
		if p.loadsRefGlobal(g) && (len(ms.cells) > 0 || len(ms.maps) > 0) {
			return false
		}
	}
	return true
}

func (p *Prog) loadsRefGlobal(f *ssa.Function) bool {
	for _, b := range f.Blocks {
		for _, in := range b.Instrs {
			u, ok := in.(*ssa.UnOp)
			if !ok {
				continue
			}
			g, ok := u.X.(*ssa.Global)
			if !ok {
				continue
			}
			t := g.Type().Underlying().(*types.Pointer).Elem()
			if isValueType(t) || t.String() == "*regexp.Regexp" || allowedExternGlobal(g) {
				continue
			}
			return true
		}
	}
	return false
}

func allowedExternGlobal(g *ssa.Global) bool {
	switch g.String() {
	case "encoding/binary.LittleEndian", "encoding/binary.BigEndian":
		return true
	}
	return false
}

func (p *Prog) bodyDeterministic(f *ssa.Function, seen map[*ssa.Function]bool) bool {
	if seen[f] {
		return true
	}
	seen[f] = true
	if p.detCache == nil {
		p.detCache = map[*ssa.Function]bool{}
	}
	if v, ok := p.detCache[f]; ok {
		return v
	}
	ok := p.bodyDeterministic1(f, seen)
	p.detCache[f] = ok
	return ok
}

func (p *Prog) bodyDeterministic1(f *ssa.Function, seen map[*ssa.Function]bool) bool {
	if f.Blocks == nil {
		return false
	}
	for _, b := range f.Blocks {
		for _, in := range b.Instrs {
			switch x := in.(type) {
			case *ssa.Go, *ssa.Select, *ssa.Send, *ssa.MakeChan, *ssa.MakeClosure, *ssa.Defer:
				return false
			case *ssa.Range:
				if _, isMap := x.X.Type().Underlying().(*types.Map); isMap {
					return false
				}
			case *ssa.UnOp:
				if g, ok := x.X.(*ssa.Global); ok {
					if !allowedExternGlobal(g) && !p.globalImmutable(g) {
						return false
					}
				}
			case *ssa.Store:
				if _, ok := x.Addr.(*ssa.Global); ok {
					return false
				}
			case ssa.CallInstruction:
				c := x.Common()
				if _, ok := c.Value.(*ssa.Builtin); ok {
					continue
				}
				callee := c.StaticCallee()
				if callee == nil {
					return false
				}
				full := callee.String()
				if callee.Pkg != nil && strings.HasPrefix(callee.Pkg.Pkg.Path(), modPath) {
					if !p.bodyDeterministic(callee, seen) {
						return false
					}
					continue
				}
				okExt := false
				for _, pre := range deterministicExternPrefixes {
					if strings.HasPrefix(full, pre) {
						okExt = true
					}
				}
				if !okExt {
					return false
				}
			}
			// any other reference to a global (address taken, passed on) disqualifies
			for _, op := range in.Operands(nil) {
				if g, ok := (*op).(*ssa.Global); ok {
					if u, isLoad := in.(*ssa.UnOp); !(isLoad && u.X == g) {
						return false
					}
				}
			}
		}
	}
	return true
}

// globalImmutable: a package variable that is stored only by its package initialiser and whose address is never
// taken for anything but loads (regular expressions, tables of constants).
func (p *Prog) globalImmutable(g *ssa.Global) bool {
	if p.immGlobals == nil {
		p.immGlobals = map[*ssa.Global]bool{}
	}
	if v, ok := p.immGlobals[g]; ok {
		return v
	}
	ok := true
	if g.Pkg == nil {
		ok = false
	} else {
		var fns []*ssa.Function
		for _, m := range g.Pkg.Members {
			if f, isF := m.(*ssa.Function); isF {
				fns = append(fns, f)
			}
			if t, isT := m.(*ssa.Type); isT {
				for _, tt := range []types.Type{t.Type(), types.NewPointer(t.Type())} {
					ms := p.SSA.MethodSets.MethodSet(tt)
					for i := 0; i < ms.Len(); i++ {
						if f := p.SSA.MethodValue(ms.At(i)); f != nil {
							fns = append(fns, f)
						}
					}
				}
			}
		}
		var all []*ssa.Function
		var rec func(f *ssa.Function)
		rec = func(f *ssa.Function) {
			all = append(all, f)
			for _, a := range f.AnonFuncs {
				rec(a)
			}
		}
		for _, f := range fns {
			rec(f)
		}
		for _, f := range all {
			for _, b := range f.Blocks {
				for _, in := range b.Instrs {
					for _, op := range in.Operands(nil) {
						if *op != ssa.Value(g) {
							continue
						}
						switch x := in.(type) {
						case *ssa.UnOp:
							// load
						case *ssa.Store:
							if x.Addr == g && f.Name() == "init" && f.Parent() == nil {
								continue
							}
							ok = false
						default:
							ok = false
						}
					}
				}
			}
		}
		// exported variables can be written by other packages
		if g.Object() != nil && g.Object().Exported() {
			ok = false
		}
	}
	p.immGlobals[g] = ok
	return ok
}

// functionalCall: encode the results of a call of a deterministic module function.
func (vc *VC) functionalCall(n *Node, x *ssa.Call, callee *ssa.Function, args []Val) []Val {
	sig := callee.Signature
	var sorts, ts []string
	for _, a := range args {
		sorts = append(sorts, vc.enc.sortOf(a.Typ))
		ts = append(ts, a.T)
	}
	var outs []Val
	name := strings.NewReplacer("/", "_", "(", "", ")", "", "*", "").Replace(callee.String())
	for i := 0; i < sig.Results().Len(); i++ {
		rt := sig.Results().At(i).Type()
		t := vc.enc.uf(fmt.Sprintf("detfn.%s.%d", name, i), sorts, vc.enc.sortOf(rt), ts...)
		v := vc.def(x.Name(), vc.enc.sortOf(rt), t)
		vc.assume(vc.enc.wellFormed(v, rt, n.st.wm))
		outs = append(outs, Val{T: v, Typ: rt})
	}
	vc.enc.notes[fmt.Sprintf("callee %s has no contract: it takes and returns plain values, writes nothing that outlives the call, reads no mutable package variable, calls only deterministic functions and never ranges over a map (checked on its SSA), so its results are an uninterpreted function of its arguments", callee.String())] = true
	return outs
}
