#!/usr/bin/env python3
"""mkmutant.py <name> <expect> <file> <old> <new> : create selftest/mutants/<name>.patch by replacing old->new once in /repo/<file>
(working tree restored afterwards)."""
import sys, subprocess
name, expect, file, old, new = sys.argv[1:6]
p = '/repo/' + file
s = open(p).read()
if s.count(old) != 1:
    sys.exit("pattern occurs %d times" % s.count(old))
open(p, 'w').write(s.replace(old, new))
d = subprocess.run(['git', '-C', '/repo', 'diff', '--', file], capture_output=True, text=True).stdout
open(p, 'w').write(s)
open('/verif/selftest/mutants/%s.patch' % name, 'w').write(d)
open('/verif/selftest/mutants/%s.expect' % name, 'w').write(expect + "\n")
print("wrote", name, len(d.splitlines()), "lines")
