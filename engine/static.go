package main

// Static (dataflow / syntactic) discharge of frame, lock and spawn obligations.

type StaticResult struct {
	Name        string
	Kind        string
	Obligations int
	Discharged  int
	Failures    []string
	Samples     []interface{}
	Trusted     []string
	Detail      interface{}
}

func runStatic(prog *Prog, sc StaticCheck) *StaticResult {
	res := &StaticResult{Name: sc.Name, Kind: sc.Kind}
	switch sc.Kind {
	case "codec-table":
		return runCodecTable(prog, sc)
	default:
		res.Obligations = 1
		res.Failures = append(res.Failures, "unknown static check kind "+sc.Kind)
	}
	return res
}
