#!/usr/bin/env python3
"""addinv.py <contract-file> <func-contract-name> <loop-ordinal|ensures|requires> <clause text...>
Appends a clause to the named loop block (or an ensures/requires line) of ONE function's contract, never touching
other functions' blocks. Clause text is given without the leading '//@'."""
import sys,re
path,fn,where=sys.argv[1:4]; text=' '.join(sys.argv[4:])
s=open(path).read()
m=re.search(r'^//@ func %s(?=[ \t]|$).*$'%re.escape(fn), s, re.M)
assert m, 'no contract for '+fn
start=m.start()
m2=re.search(r'^//@ (func|extern|spec|pred|lemma|axiom|order) ', s[m.end():], re.M)
end=m.end()+m2.start() if m2 else len(s)
blk=s[start:end]
if where in ('ensures','requires'):
    lines=blk.split('\n')
    # insert after the last requires/ensures/uses/modifies line before the first loop
    k=1
    for i,l in enumerate(lines):
        if re.match(r'//@\s+loop ',l): break
        if l.startswith('//@'): k=i+1
    lines.insert(k,'//@   %s %s'%(where,text))
    blk='\n'.join(lines)
else:
    lm=re.search(r'^//@   loop %s\s*$'%where, blk, re.M)
    if not lm:
        blk=blk.rstrip('\n')+'\n//@   loop %s\n//@     invariant %s\n'%(where,text)
        if not s[end:].startswith('\n') and end<len(s): blk+='\n'
    else:
        # end of this loop block: next 'loop' line or end
        nm=re.search(r'^//@   loop ', blk[lm.end():], re.M)
        e=lm.end()+nm.start() if nm else len(blk.rstrip('\n'))+1
        blk=blk[:e].rstrip('\n')+'\n//@     invariant %s\n'%text+blk[e:]
open(path,'w').write(s[:start]+blk+s[end:])
