package main

import (
	"fmt"
	"sort"
	"strings"
)

// Static (dataflow / syntactic) discharge of frame, lock and spawn obligations.

type StaticResult struct {
	Name        string
	Kind        string
	Obligations int
	Discharged  int
	Failures    []string
	Samples     []interface{}
	Trusted     []string
	Detail      interface{}
}

func runStatic(prog *Prog, sc StaticCheck) *StaticResult {
	res := &StaticResult{Name: sc.Name, Kind: sc.Kind}
	switch sc.Kind {
	case "codec-table":
		return runCodecTable(prog, sc)
	case "frame":
		return runFrame(prog, sc)
	default:
		res.Obligations = 1
		res.Failures = append(res.Failures, "unknown static check kind "+sc.Kind)
	}
	return res
}

// runFrame: frame obligations "function F (transitively) never stores to X", discharged
// on the field-level modification set computed over the static call graph.
//   args: func = contract name; forbid = comma-separated store targets
//         (T.f | elem:T | map:T | append:T | deref:T | global:x); allow_unknown = "yes" to tolerate
//         calls with unknown effects (listed in the evidence as assumption).
func runFrame(prog *Prog, sc StaticCheck) *StaticResult {
	res := &StaticResult{Name: sc.Name, Kind: sc.Kind}
	pkgPath := modPath + "/" + sc.Pkg
	fn := prog.FindFunc(pkgPath, sc.Args["func"])
	if fn == nil {
		res.Obligations = 1
		res.Failures = append(res.Failures, "binding: function "+sc.Args["func"]+" not found")
		return res
	}
	ms := prog.ModSetOf(fn)
	var forbid []string
	for _, f := range strings.Split(sc.Args["forbid"], ",") {
		if f = strings.TrimSpace(f); f != "" {
			forbid = append(forbid, f)
		}
	}
	res.Obligations++
	if ms.all && sc.Args["allow_unknown"] != "yes" {
		var u []string
		for k := range ms.unknown {
			u = append(u, k)
		}
		sort.Strings(u)
		res.Failures = append(res.Failures, fmt.Sprintf("%s: calls with unknown effects: %s", sc.Args["func"], strings.Join(u, "; ")))
	} else {
		res.Discharged++
		if ms.all {
			var u []string
			for k := range ms.unknown {
				u = append(u, k)
			}
			sort.Strings(u)
			res.Trusted = append(res.Trusted, fmt.Sprintf("frame of %s: dynamic calls assumed not to write the forbidden locations: %s", sc.Args["func"], strings.Join(u, "; ")))
		}
	}
	for _, f := range forbid {
		res.Obligations++
		if sites, ok := ms.sites[f]; ok && len(sites) > 0 {
			res.Failures = append(res.Failures, fmt.Sprintf("%s writes %s at %s", sc.Args["func"], f, strings.Join(sites, ", ")))
			continue
		}
		res.Discharged++
		if len(res.Samples) < 2 {
			res.Samples = append(res.Samples, map[string]interface{}{"obligation": fmt.Sprintf("%s#frame(no store to %s)", sc.Args["func"], f), "backend": "static mod-set"})
		}
	}
	var keys []string
	for k := range ms.sites {
		keys = append(keys, k)
	}
	sort.Strings(keys)
	res.Detail = map[string]interface{}{"func": sc.Args["func"], "writes": keys}
	return res
}
