package driver

import (
	"fmt"
	"os/signal"
	"net/url"
	"os"
	"path/filepath"
	"sync"
	"syscall"
	"testing"
)

// Demonstration for C19 "atomic-write:writeSettings" (pre-fix code): writeSettings wrote the settings file in
// place (os.WriteFile truncates, then writes). A write that fails part-way — here: the file size limit of
// the process is lower than the new contents, as with a full disk or a kill between truncate and write —
// leaves a truncated file: neither the complete previous contents nor the complete new contents.
func TestVerifFindingSettingsTornWrite(t *testing.T) {
	dir := t.TempDir()
	fname := filepath.Join(dir, "settings.json")
	old := &settings{Configs: []namedConfig{{Name: "keep", config: defaultConfig()}}}
	if err := writeSettings(fname, old); err != nil {
		t.Fatal(err)
	}
	before, _ := os.ReadFile(fname)
	// bigger settings, written under a file size limit smaller than the new contents
	big := &settings{}
	for i := 0; i < 200; i++ {
		big.Configs = append(big.Configs, namedConfig{Name: fmt.Sprintf("cfg%03d", i), config: defaultConfig()})
	}
	var lim syscall.Rlimit
	if err := syscall.Getrlimit(syscall.RLIMIT_FSIZE, &lim); err != nil {
		t.Skip(err)
	}
	// SIGXFSZ must not kill the test process
	signalIgnoreXFSZ()
	small := syscall.Rlimit{Cur: uint64(len(before)) + 64, Max: lim.Max}
	if err := syscall.Setrlimit(syscall.RLIMIT_FSIZE, &small); err != nil {
		t.Skip(err)
	}
	werr := writeSettings(fname, big)
	syscall.Setrlimit(syscall.RLIMIT_FSIZE, &lim)
	if werr == nil {
		t.Skip("write did not fail under the size limit")
	}
	after, _ := os.ReadFile(fname)
	if string(after) != string(before) {
		_, perr := readSettings(fname)
		t.Errorf("VERIF-FINDING: failed save left settings.json with %d bytes (previous contents %d bytes, new contents not written): previous configuration lost; readSettings: %v", len(after), len(before), perr)
	}
}

// Demonstration for C19 "guarded-by:settingsMu" (pre-fix code): editSettings is read-modify-write without a
// lock, so two concurrent saves of different names can lose one of them.
func TestVerifFindingSettingsLostUpdate(t *testing.T) {
	lost := 0
	for round := 0; round < 40 && lost == 0; round++ {
		dir := t.TempDir()
		fname := filepath.Join(dir, "settings.json")
		const n = 8
		var wg sync.WaitGroup
		for i := 0; i < n; i++ {
			wg.Add(1)
			go func(i int) {
				defer wg.Done()
				u, _ := url.Parse(fmt.Sprintf("http://x/?config=c%d&focus=f%d", i, i))
				setConfig(fname, *u)
			}(i)
		}
		wg.Wait()
		s, err := readSettings(fname)
		if err != nil {
			t.Errorf("VERIF-FINDING: concurrent saves left an unreadable settings file: %v", err)
			return
		}
		if len(s.Configs) != n {
			lost = n - len(s.Configs)
		}
	}
	if lost > 0 {
		t.Errorf("VERIF-FINDING: %d of 8 concurrently saved configurations were lost", lost)
	}
}

func signalIgnoreXFSZ() { signal.Ignore(syscall.SIGXFSZ) }
