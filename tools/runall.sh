#!/bin/bash
# runall.sh [binary]: every claimed property's quick check with the given checker binary (default bin/pverif);
# prints one line per property that does not come back clean, and a summary.
bin=${1:-/verif/bin/pverif}; bad=0
for i in $(seq -w 1 20); do
  out=$($bin check C$i --tier quick 2>&1 | grep -av WARNING)
  line=$(echo "$out" | grep -a 'obligations,' | tail -1)
  if ! echo "$line" | grep -q ' 0 violations'; then bad=$((bad+1)); echo "$out" | grep -a 'VIOLATION\|load\|obligations,' | cut -c1-260; fi
done
echo "runall: $bad properties not clean"
