#!/usr/bin/env python3
"""mkdesign.py: regenerate sections 15 (status per property as built) and 17 (seeded changes and which checks
catch them) of /verif/DESIGN.md from props/*.json, evidence/*.json and seeded/*/meta.json. The text between the
markers <!-- GEN15 --> ... <!-- /GEN15 --> and <!-- GEN17 --> ... <!-- /GEN17 --> is replaced; the markers are
appended at the end of the file when missing."""
import json, glob, os, re

V = '/verif'
props = {}
for f in sorted(glob.glob(f'{V}/props/C*.json')):
    d = json.load(open(f))
    props[d['id']] = d
titles = {}
for l in open(f'{V}/properties.jsonl'):
    d = json.loads(l)
    titles[d['id']] = d['title']

def mutants(pid):
    out = []
    for f in sorted(glob.glob(f'{V}/selftest/mutants/{pid}-*.expect')):
        name = os.path.basename(f)[:-7]
        out.append((name, open(f).read().strip()))
    return out

s15 = ['## 15. Status per property as built (generated)', '',
       'For each property: the functions under contract (obligations generated from their current source on every run),',
       'the lemmas, the statically discharged clauses, what the check does not decide, and the must-fail mutants',
       '(`selftest/mutants/<name>.patch`, with the obligation each must trip). Obligation counts are those of the last',
       'quick run recorded in `evidence/<id>.json`.', '']
for pid in sorted(props):
    d = props[pid]
    ev = {}
    try:
        ev = json.load(open(f'{V}/evidence/{pid}.json'))
    except Exception:
        pass
    s15.append(f'### {pid} — {titles.get(pid, "")}')
    s15.append('')
    fns, autos = [], []
    for f in d.get('functions', []):
        n = f"`{f['pkg'].split('/')[-1]}.{f['name']}`"
        if f.get('auto'):
            autos.append(n)
            continue
        if f.get('only'):
            n += f" (only obligations matching {f['only']})"
        fns.append(n)
    if fns:
        s15.append('*Functions under contract:* ' + ', '.join(fns) + '.')
    if autos:
        s15.append(f'*Functions checked against the empty contract (zero-annotation safety, {len(autos)}):* ' + ', '.join(autos) + '.')
    if d.get('lemmas'):
        s15.append('*Lemmas:* ' + ', '.join(f"`{l['name']}`" for l in d['lemmas']) + '.')
    if d.get('static'):
        s15.append('*Static clauses:* ' + ', '.join(f"`{s['name']}` ({s['kind']})" for s in d['static']) + '.')
    cov = ev.get('coverage') or ev
    tot = None
    for k in ('obligations_total', 'obligations'):
        if isinstance(ev.get(k), int):
            tot = ev[k]
    cv = ev.get('coverage') or {}
    if cv.get('obligations'):
        bb = cv.get('by_backend') or {}
        s15.append(f"*Last recorded run ({ev.get('tier','quick')}):* {cv.get('discharged')} of {cv.get('obligations')} obligations discharged ({', '.join(f'{k}: {v}' for k, v in sorted(bb.items()))}); {len(cv.get('deferred_to_thorough') or [])} clauses deferred to the thorough tier; wall {ev.get('wall_s')} s.")
    s15.append('*Not decided:* ' + '; '.join(d.get('not_decided', [])) + '.')
    ms = mutants(pid)
    if ms:
        s15.append('*Must-fail mutants:* ' + '; '.join(f'`{n}` → `{e}`' for n, e in ms) + '.')
    s15.append('')

# ---- section 17
seeds = []
for dname in sorted(glob.glob(f'{V}/seeded/C*')):
    try:
        m = json.load(open(dname + '/meta.json'))
    except Exception:
        continue
    seeds.append((os.path.basename(dname), m))
s17 = ['## 17. Seeded changes from independent sub-agents and which checks catch them (generated)', '',
       'Each change was written by a fresh sub-agent that saw only the text of one property and a scratch worktree of',
       'google/pprof (nothing from /verif). I kept a change only after confirming in a scratch worktree that it applies,',
       'builds, passes the whole existing test suite, and that its demonstration passes on the unchanged tree and fails',
       'with the change (`tools/seedconfirm.py`). Every kept change is stored under `seeded/<property>-<name>/`',
       '(`patch.diff`, the demonstration, `meta.json`). "own" is the result of running the quick check of the property the',
       'change was written against on a scratch worktree with the change applied, with the checker as committed last',
       '(`tools/seedsweep.py --own`). "other" lists checks of other properties that reported a violation in the one full',
       'cross-property sweep made after round 1 (not refreshed since; blank for later rounds). A miss is stated as a miss.',
       'Three rounds: 80 changes (round 1, four per property), 40 (round 2) and up to 40 (round 3), two per property each.', '']
by = {}
for name, m in seeds:
    pid = name.split('-')[0]
    by.setdefault(pid, []).append((name, m))
ncaught_own = ncaught_any = 0
rows = []
for pid in sorted(by):
    for name, m in by[pid]:
        cb = m.get('caught_by')
        if cb is None:
            own = 'yes' if m.get('caught_by_check') else 'no'
            other = '(not swept)'
            anyc = m.get('caught_by_check')
        else:
            own = 'yes' if pid in cb else 'no'
            others = sorted(k for k in cb if k != pid)
            other = ', '.join(others) if others else '—'
            anyc = bool(cb)
        if own == 'yes':
            ncaught_own += 1
        if anyc:
            ncaught_any += 1
        obl = ''
        if cb and pid in cb:
            obl = cb[pid]
        elif cb:
            obl = cb[sorted(cb)[0]]
        obl = re.sub(r'^obligation=', '', obl)
        obl = obl.split(' status=')[0].split(' (')[0][:70]
        summ = (m.get('summary') or m.get('why_breaks') or '')[:110].replace('|', '/').replace('\n', ' ')
        rows.append(f"| `{name}` | {summ} | {own} | {other} | {('`'+obl+'`') if obl else ''} |")
s17.append(f'**{len(seeds)} confirmed changes; {ncaught_own} caught by the check of their own property, {ncaught_any} caught by at least one check.**')
s17.append('')
s17.append('| change | what it does | own | other checks | obligation reported |')
s17.append('|---|---|---|---|---|')
s17 += rows
s17.append('')
missed = [(n, m) for n, m in seeds if (m.get('caught_by') is not None and not m.get('caught_by')) or (m.get('caught_by') is None and not m.get('caught_by_check'))]
if missed:
    s17.append('### Changes no check catches, and why')
    s17.append('')
    reasons = {}
    try:
        reasons = json.load(open(f'{V}/tools/seed_miss_reasons.json'))
    except Exception:
        pass
    for n, m in missed:
        s17.append(f"* `{n}` — {reasons.get(n, 'the code it changes is outside the functions under contract for this property (see the not-decided list in section 15).')}")
    s17.append('')

doc = open(f'{V}/DESIGN.md').read()
def put(doc, tag, lines):
    block = f'<!-- {tag} -->\n' + '\n'.join(lines) + f'\n<!-- /{tag} -->'
    pat = re.compile(rf'<!-- {tag} -->.*?<!-- /{tag} -->', re.S)
    if pat.search(doc):
        return pat.sub(lambda _: block, doc)
    return doc.rstrip('\n') + '\n\n' + block + '\n'
doc = put(doc, 'GEN15', s15)
doc = put(doc, 'GEN17', s17)
open(f'{V}/DESIGN.md', 'w').write(doc)
print('sections 15 and 17 regenerated:', len(props), 'properties,', len(seeds), 'seeds,', ncaught_own, 'own,', ncaught_any, 'any')
