package graph

import (
	"bytes"
	"strings"
	"testing"
)

// dotStrings returns the contents of the double-quoted strings of a DOT document, unescaped per the DOT
// grammar (backslash escapes the next character), or an error position when a quote is left open.
func verifDotStrings(doc string) (out []string, ok bool) {
	for i := 0; i < len(doc); i++ {
		if doc[i] != '"' {
			continue
		}
		var sb strings.Builder
		j := i + 1
		for ; j < len(doc) && doc[j] != '"'; j++ {
			if doc[j] == '\\' && j+1 < len(doc) {
				sb.WriteByte(doc[j])
				j++
			}
			sb.WriteByte(doc[j])
		}
		if j >= len(doc) {
			return out, false
		}
		out = append(out, sb.String())
		i = j
	}
	return out, true
}

// Demonstration for C18 (pre-fix code), obligations escaped-format:builder.start / addNodelets / numericNodelets:
// the graph title and the tag nodelet labels were written into quoted DOT strings verbatim.
func TestVerifFindingDotUnescapedTitleAndTags(t *testing.T) {
	n := &Node{Info: NodeInfo{Name: "f"}, Flat: 10, Cum: 10,
		LabelTags:   TagMap{`say "hi"`: &Tag{Name: `say "hi"`, Flat: 10, Cum: 10}},
		NumericTags: map[string]TagMap{"": {"8": &Tag{Name: "8", Unit: `b"y`, Value: 8, Flat: 10, Cum: 10}}},
		In: EdgeMap{}, Out: EdgeMap{}}
	g := &Graph{Nodes: Nodes{n}}
	for _, title := range []string{`plain`, `my "quoted" profile`, `C:\dir\`} {
		var buf bytes.Buffer
		ComposeDot(&buf, g, &DotAttributes{}, &DotConfig{Title: title, Total: 10, FormatValue: func(v int64) string { return "10" }})
		doc := buf.String()
		strs, closed := verifDotStrings(doc)
		if !closed {
			t.Errorf("VERIF-FINDING: DOT output for title %q leaves a quoted string open:\n%s", title, doc)
			continue
		}
		want := map[string]bool{strings.ReplaceAll(strings.ReplaceAll(title, `\`, `\\`), `"`, `\"`): false, `say \"hi\"`: false}
		for _, s := range strs {
			if _, ok := want[s]; ok {
				want[s] = true
			}
		}
		for s, seen := range want {
			if !seen {
				t.Errorf("VERIF-FINDING: title %q: no quoted DOT string carries %s intact; the document's strings are %q", title, s, strs)
			}
		}
	}
}

// Demonstration for C18 (pre-fix code), obligation escaped-format:multilinePrintableName: file and binary names
// were written into node labels verbatim.
func TestVerifFindingDotUnescapedFileName(t *testing.T) {
	for _, info := range []NodeInfo{{Name: "f", File: `/src/a"b.go`, Lineno: 3}, {Objfile: `/bin/we"ird`}} {
		n := &Node{Info: info, Flat: 10, Cum: 10, In: EdgeMap{}, Out: EdgeMap{}}
		var buf bytes.Buffer
		ComposeDot(&buf, &Graph{Nodes: Nodes{n}}, &DotAttributes{}, &DotConfig{Title: "t", Total: 10, FormatValue: func(v int64) string { return "10" }})
		strs, closed := verifDotStrings(buf.String())
		found := false
		for _, s := range strs {
			if strings.Contains(s, `a\"b.go`) || strings.Contains(s, `we\"ird`) {
				found = true
			}
		}
		if !closed || !found {
			t.Errorf("VERIF-FINDING: node label for %+v is not a well-formed DOT string carrying the escaped name:\n%s", info, buf.String())
		}
	}
}
