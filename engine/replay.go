package main

// Replay of solver counterexamples against the real code. A model is turned into Go
// values (type-directed, following pointers and slices through the modelled memory),
// an in-package test is generated that checks the assumptions on the real input,
// runs the real function(s) and evaluates the violated clause in Go. The test is
// injected with `go test -overlay` (nothing is written to /repo).

import (
	"bufio"
	"context"
	"encoding/json"
	"fmt"
	"go/types"
	"io"
	"math/big"
	"os"
	"os/exec"
	"path/filepath"
	"regexp"
	"sort"
	"strings"
	"time"

	"golang.org/x/tools/go/ssa"
)

type ReplayResult struct {
	Outcome string `json:"outcome"` // reproduced, not-reproduced, skipped, error
	Detail  string `json:"detail"`
	Test    string `json:"test,omitempty"`
	Output  string `json:"output,omitempty"`
	Cmd     string `json:"cmd,omitempty"`
}

// ---- interactive solver session ----

type session struct {
	cmd *exec.Cmd
	in  io.WriteCloser
	out *bufio.Reader
	cancel context.CancelFunc
}

func newSession(query string, timeout time.Duration, extra ...string) (*session, string, error) {
	ctx, cancel := context.WithTimeout(context.Background(), timeout)
	cmd := exec.CommandContext(ctx, "z3-new", "-in")
	in, _ := cmd.StdinPipe()
	outp, _ := cmd.StdoutPipe()
	cmd.Stderr = cmd.Stdout
	if err := cmd.Start(); err != nil {
		cancel()
		return nil, "", err
	}
	s := &session{cmd: cmd, in: in, out: bufio.NewReader(outp), cancel: cancel}
	q := strings.Replace(query, "(get-model)\n", "", 1)
	// symbols the model extraction may ask about must exist before the model is built
	var pre []string
	for _, sym := range []string{"strempty", "strlt", "strlen"} {
		if !strings.Contains(q, "(declare-const "+sym+" ") && !strings.Contains(q, "(declare-fun "+sym+" ") {
			pre = append(pre, onDemandDecls[sym])
		}
	}
	extra = append(pre, extra...)
	if len(extra) > 0 {
		q = strings.Replace(q, "(check-sat)\n", strings.Join(extra, "\n")+"\n(check-sat)\n", 1)
	}
	io.WriteString(in, q)
	for {
		line, err := s.out.ReadString('\n')
		if err != nil {
			s.close()
			return nil, "", fmt.Errorf("solver session ended: %v", err)
		}
		line = strings.TrimSpace(line)
		if line == "" || strings.HasPrefix(line, "WARNING") {
			continue
		}
		if line != "sat" {
			s.close()
			return nil, line, nil
		}
		return s, "sat", nil
	}
}

func (s *session) close() {
	s.in.Close()
	s.cancel()
	s.cmd.Wait()
}

// eval returns the model value of a term as an S-expression string.
func (s *session) eval(term string) (string, error) {
	io.WriteString(s.in, "(get-value ("+term+"))\n")
	depth := 0
	var sb strings.Builder
	started := false
	for {
		c, err := s.out.ReadByte()
		if err != nil {
			return "", err
		}
		if c == '|' {
			sb.WriteByte(c)
			for {
				d, err := s.out.ReadByte()
				if err != nil {
					return "", err
				}
				sb.WriteByte(d)
				if d == '|' {
					break
				}
			}
			continue
		}
		if c == '(' {
			depth++
			started = true
		}
		if started {
			sb.WriteByte(c)
		}
		if c == ')' {
			depth--
			if started && depth == 0 {
				break
			}
		}
	}
	txt := sb.String()
	if strings.HasPrefix(txt, "(error") {
		return "", fmt.Errorf("%s", txt)
	}
	// ((term value)) -> value: take the last top-level element of the inner list
	inner := strings.TrimSpace(txt[1 : len(txt)-1])
	inner = strings.TrimSpace(inner[1 : len(inner)-1])
	parts := splitTop(inner)
	if len(parts) < 2 {
		return "", fmt.Errorf("unexpected get-value answer %q", txt)
	}
	return parts[len(parts)-1], nil
}

func splitTop(s string) []string {
	var parts []string
	depth := 0
	start := -1
	inBar := false
	for i := 0; i < len(s); i++ {
		c := s[i]
		if inBar {
			if c == '|' {
				inBar = false
			}
			continue
		}
		switch c {
		case '|':
			inBar = true
			if start < 0 {
				start = i
			}
		case '(':
			if depth == 0 && start < 0 {
				start = i
			}
			depth++
		case ')':
			depth--
			if depth == 0 {
				parts = append(parts, s[start:i+1])
				start = -1
			}
		case ' ', '\n', '\t', '\r':
			if depth == 0 && start >= 0 {
				parts = append(parts, s[start:i])
				start = -1
			}
		default:
			if start < 0 {
				start = i
			}
		}
	}
	if start >= 0 {
		parts = append(parts, s[start:])
	}
	return parts
}

func parseIntVal(v string) (*big.Int, bool) {
	v = strings.TrimSpace(v)
	if strings.HasPrefix(v, "#x") {
		b, ok := new(big.Int).SetString(v[2:], 16)
		return b, ok
	}
	if strings.HasPrefix(v, "#b") {
		b, ok := new(big.Int).SetString(v[2:], 2)
		return b, ok
	}
	if strings.HasPrefix(v, "(- ") {
		b, ok := new(big.Int).SetString(strings.TrimSpace(v[3:len(v)-1]), 10)
		if ok {
			return b.Neg(b), true
		}
		return nil, false
	}
	if strings.HasPrefix(v, "(_ bv") {
		f := strings.Fields(v[5:])
		b, ok := new(big.Int).SetString(f[0], 10)
		return b, ok
	}
	b, ok := new(big.Int).SetString(v, 10)
	return b, ok
}

// ---- model -> Go values ----

type builder struct {
	s       *session
	vc      *VC
	st      *State // entry state
	stmts   []string
	objs    map[string]string // "obj/idx/fld" of struct objects -> Go variable
	arrays  map[string]string // "arr/fld/type" -> Go slice variable (backing array)
	arrLen  map[string]int
	strs    map[string]string // abstract Str value -> Go literal
	strTerms []string
	ctr     int
	pkg     *types.Package
	imports map[string]string // name -> path
	err     error
	depth   int
	shrink  []string // constraints that would make the model smaller
	tooBig  string
	query   string
}

func (b *builder) fail(f string, a ...interface{}) {
	if b.err == nil {
		b.err = fmt.Errorf(f, a...)
	}
}

func (b *builder) fresh(p string) string {
	b.ctr++
	return fmt.Sprintf("%s%d", p, b.ctr)
}

func smtInt(n *big.Int) string {
	if n.Sign() < 0 {
		return "(- " + new(big.Int).Neg(n).String() + ")"
	}
	return n.String()
}

var onDemandDecls = map[string]string{
	"strempty": "(declare-const strempty Str)",
	"strlt":    "(declare-fun strlt (Str Str) Bool)",
	"strlen":   "(declare-fun strlen (Str) Int)",
}

func (b *builder) ev(term string) string {
	v, err := b.s.eval(term)
	if err != nil {
		b.fail("get-value %s: %v", truncate(term, 80), err)
		return ""
	}
	return v
}

func (b *builder) evInt(term string) *big.Int {
	v := b.ev(term)
	if b.err != nil {
		return big.NewInt(0)
	}
	n, ok := parseIntVal(v)
	if !ok {
		b.fail("cannot parse integer value %q of %s", v, truncate(term, 80))
		return big.NewInt(0)
	}
	return n
}

func (b *builder) typeStr(t types.Type) string {
	return types.TypeString(t, func(p *types.Package) string {
		if p == b.pkg {
			return ""
		}
		b.imports[p.Name()] = p.Path()
		return p.Name()
	})
}

// value returns a Go expression for the model value of `term` of type t.
func (b *builder) value(term string, t types.Type) string {
	if b.err != nil {
		return "nil"
	}
	b.depth++
	defer func() { b.depth-- }()
	if b.depth > 6 {
		// far from the inputs the exact model value rarely matters; the verdict comes from running the real code
		switch t.Underlying().(type) {
		case *types.Pointer, *types.Slice, *types.Map, *types.Interface:
			return "nil"
		}
	}
	e := b.vc.enc
	switch u := t.Underlying().(type) {
	case *types.Basic:
		switch {
		case u.Info()&types.IsBoolean != 0:
			return b.ev(term)
		case u.Info()&types.IsInteger != 0:
			n := b.evInt(term)
			w, signed := intWidth(u)
			if e.isBV(t) && signed && n.Cmp(pow2(w-1)) >= 0 {
				n = new(big.Int).Sub(n, pow2(w))
			}
			return fmt.Sprintf("%s(%s)", b.typeStr(t), n.String())
		case u.Info()&types.IsFloat != 0:
			bits := b.evInt(fmt.Sprintf("((_ fp.to_ubv 64) RNE (fp.abs %s))", term)) // placeholder, replaced below
			_ = bits
			v := b.ev(term)
			return b.floatExpr(v, t)
		case u.Info()&types.IsString != 0:
			return b.strValue(term)
		}
	case *types.Pointer:
		obj := b.evInt(pObj(term))
		if obj.Sign() == 0 {
			return "nil"
		}
		idx := b.evInt(pIdx(term))
		fld := b.evInt(pFld(term))
		if fld.Sign() != 0 {
			b.shrink = append(b.shrink, fmt.Sprintf("(assert (= (p.fld %s) 0))", term))
			b.tooBig = fmt.Sprintf("pointer to a struct field (fld %s)", fld)
			fld = big.NewInt(0)
		}
		if idx.Sign() != 0 && !strings.HasPrefix(term, "(idx ") {
			// prefer models in which plain pointers are not element pointers
			b.shrink = append(b.shrink, fmt.Sprintf("(assert (= (p.idx %s) 0))", term))
			if idx.Sign() < 0 || !idx.IsInt64() || idx.Int64() > 8 {
				b.tooBig = fmt.Sprintf("pointer into an array at index %s", idx)
				idx = big.NewInt(0)
			}
		}
		return b.pointerTo(obj, idx, fld, u.Elem(), term)
	case *types.Slice:
		arr := b.evInt(sArr(term))
		if arr.Sign() == 0 {
			return "nil"
		}
		off := b.evInt(sOff(term))
		ln := b.evInt(sLen(term))
		fld := b.evInt(sFld(term))
		if !ln.IsInt64() || ln.Int64() > 8 || !off.IsInt64() || off.Int64() > 8 {
			b.shrink = append(b.shrink, fmt.Sprintf("(assert (and (<= (s.len %s) 3) (<= (s.off %s) 1)))", term, term))
			b.tooBig = fmt.Sprintf("model slice too large to replay (len %s, off %s)", ln, off)
			// keep exploring with a clamped value to discover further terms to shrink
			ln, off = big.NewInt(2), big.NewInt(0)
		}
		av := b.backing(arr, fld, u.Elem(), int(off.Int64()+ln.Int64()), term, off.Int64())
		return fmt.Sprintf("%s[%d:%d:%d]", av, off.Int64(), off.Int64()+ln.Int64(), off.Int64()+ln.Int64())
	case *types.Struct:
		s := e.structSort(t)
		var fs []string
		for i := 0; i < u.NumFields(); i++ {
			f := u.Field(i)
			if !b.representable(f.Type()) {
				continue
			}
			fs = append(fs, fmt.Sprintf("%s: %s", f.Name(), b.value(fmt.Sprintf("(%s.%d %s)", s, i, term), f.Type())))
		}
		return fmt.Sprintf("%s{%s}", b.typeStr(t), strings.Join(fs, ", "))
	case *types.Interface:
		v := b.ev(fmt.Sprintf("(= %s nil.iface)", term))
		if v == "true" {
			return "nil"
		}
		if isErrorType(t) {
			b.imports["errors"] = "errors"
			return `errors.New("replay")`
		}
		b.fail("non-nil interface value of type %s cannot be replayed", t)
		return "nil"
	case *types.Map:
		v := b.evInt(term)
		if v.Sign() == 0 {
			return "nil"
		}
		return fmt.Sprintf("%s{}", b.typeStr(t))
	}
	b.fail("values of type %s cannot be replayed", t)
	return "nil"
}

func (b *builder) representable(t types.Type) bool {
	switch u := t.Underlying().(type) {
	case *types.Basic:
		return u.Kind() != types.UnsafePointer
	case *types.Pointer, *types.Slice, *types.Interface, *types.Map:
		return true
	case *types.Struct:
		if n, ok := t.(*types.Named); ok && n.Obj().Pkg() != nil && n.Obj().Pkg().Path() == "sync" {
			return false
		}
		return true
	}
	return false
}

func (b *builder) floatExpr(v string, t types.Type) string {
	b.imports["math"] = "math"
	v = strings.TrimSpace(v)
	switch {
	case strings.HasPrefix(v, "(fp "):
		parts := splitTop(v[4 : len(v)-1])
		if len(parts) == 3 {
			bits := new(big.Int)
			for _, p := range parts {
				n, ok := parseIntVal(p)
				if !ok {
					b.fail("bad fp literal %s", v)
					return "0"
				}
				w := 0
				if strings.HasPrefix(p, "#b") {
					w = len(p) - 2
				} else if strings.HasPrefix(p, "#x") {
					w = 4 * (len(p) - 2)
				}
				bits.Lsh(bits, uint(w))
				bits.Or(bits, n)
			}
			return fmt.Sprintf("math.Float64frombits(0x%x)", bits)
		}
	case strings.Contains(v, "+zero"):
		return "0.0"
	case strings.Contains(v, "-zero"):
		return "math.Copysign(0, -1)"
	case strings.Contains(v, "+oo"):
		return "math.Inf(1)"
	case strings.Contains(v, "-oo"):
		return "math.Inf(-1)"
	case strings.Contains(v, "NaN"):
		return "math.NaN()"
	}
	b.fail("cannot parse float value %s", v)
	return "0"
}

// strValue: abstract strings are made concrete so that equality and (where known) order agree with the model.
func (b *builder) strValue(term string) string {
	abs := b.ev(term)
	if lit, ok := b.strs[abs]; ok {
		return lit
	}
	// a program literal?
	for _, s := range b.vc.enc.strOrder {
		if b.ev(fmt.Sprintf("(= %s %s)", term, b.vc.enc.strLits[s])) == "true" {
			lit := fmt.Sprintf("%q", s)
			b.strs[abs] = lit
			return lit
		}
	}
	if b.ev(fmt.Sprintf("(= %s strempty)", term)) == "true" {
		b.strs[abs] = `""`
		return `""`
	}
	// rank among the abstract strings seen so far, by the model's strlt
	rank := 0
	for _, other := range b.strTerms {
		if b.ev(fmt.Sprintf("(strlt %s %s)", other, term)) == "true" {
			rank++
		}
	}
	b.strTerms = append(b.strTerms, term)
	n := int64(1)
	if l := b.evInt(fmt.Sprintf("(strlen %s)", term)); l.IsInt64() && l.Int64() >= 1 && l.Int64() <= 64 {
		n = l.Int64()
	}
	// names are spaced out so that later strings can be ranked between earlier ones
	name := fmt.Sprintf("s%03d", 500+rank*7+len(b.strTerms))
	_ = n
	lit := fmt.Sprintf("%q", name)
	b.strs[abs] = lit
	return lit
}

// backing returns a Go variable holding the backing array (as a slice) of object arr.
// sliceTerm/off: a symbolic slice over this array (elements are read through it so that
// shrinking constraints stay meaningful across models); "" for pointer-only access.
func (b *builder) backing(arr, fld *big.Int, elem types.Type, need int, sliceTerm string, off int64) string {
	key := fmt.Sprintf("%s/%s/%s", arr, fld, typeKey(elem))
	if v, ok := b.arrays[key]; ok {
		if b.arrLen[key] < need {
			b.fail("backing array referenced with different extents")
		}
		return v
	}
	v := b.fresh("arr")
	b.arrays[key] = v
	if need < 1 {
		need = 1
	}
	n := need + 2
	b.arrLen[key] = n
	idx := len(b.stmts)
	b.stmts = append(b.stmts, "") // placeholder: declaration must precede element construction
	b.stmts[idx] = fmt.Sprintf("%s := make([]%s, %d)", v, b.typeStr(elem), n)
	for i := 0; i < need; i++ {
		p := mkPtr(smtInt(arr), fmt.Sprint(i), smtInt(fld))
		if sliceTerm != "" {
			if int64(i) < off {
				continue
			}
			p = b.vc.enc.elemPtr(sliceTerm, fmt.Sprint(int64(i)-off))
		}
		if _, isStruct := elem.Underlying().(*types.Struct); isStruct {
			b.fillStruct(fmt.Sprintf("%s[%d]", v, i), p, elem)
		} else {
			val := b.value(b.vc.load(b.st, p, elem), elem)
			b.stmts = append(b.stmts, fmt.Sprintf("%s[%d] = %s", v, i, val))
		}
	}
	return v
}

func (b *builder) fillStruct(lhs, p string, t types.Type) {
	st := t.Underlying().(*types.Struct)
	for i := 0; i < st.NumFields(); i++ {
		f := st.Field(i)
		if !b.representable(f.Type()) {
			continue
		}
		fp := b.vc.enc.fieldPtr(p, i)
		if _, isStruct := f.Type().Underlying().(*types.Struct); isStruct {
			b.fillStruct(lhs+"."+f.Name(), fp, f.Type())
			continue
		}
		if _, isArr := f.Type().Underlying().(*types.Array); isArr {
			continue
		}
		fmn := b.vc.enc.memForField(t, i)
		if !strings.Contains(b.query, fmn+"@") && !strings.Contains(b.query, fmn+"!") && !strings.Contains(b.query, fmn+".") {
			continue // this memory plays no role in the query: the zero value is as good as any
		}
		val := b.value(b.vc.loadM(b.st, b.vc.enc.memForField(t, i), fp, f.Type()), f.Type())
		b.stmts = append(b.stmts, fmt.Sprintf("%s.%s = %s", lhs, f.Name(), val))
	}
}

// pointerTo returns a Go expression for a pointer to the object at (obj, idx, fld) of type elem.
func (b *builder) pointerTo(obj, idx, fld *big.Int, elem types.Type, term string) string {
	key := fmt.Sprintf("%s/%s/%s/%s", obj, idx, fld, typeKey(elem))
	if v, ok := b.objs[key]; ok {
		return v
	}
	if idx.Sign() != 0 || b.isBackingArray(obj, fld, elem) {
		// pointer to a slice element
		if !idx.IsInt64() || idx.Int64() > 64 || idx.Sign() < 0 {
			b.fail("pointer into array at index %s cannot be replayed", idx)
			return "nil"
		}
		av := b.backing(obj, fld, elem, int(idx.Int64())+1, "", 0)
		return fmt.Sprintf("&%s[%d]", av, idx.Int64())
	}
	if fld.Sign() != 0 {
		b.fail("pointer to a struct field (fld %s) cannot be replayed", fld)
		return "nil"
	}
	v := b.fresh("p")
	b.objs[key] = v
	p := term
	if _, isStruct := elem.Underlying().(*types.Struct); isStruct {
		b.stmts = append(b.stmts, fmt.Sprintf("%s := new(%s)", v, b.typeStr(elem)))
		b.fillStruct("(*"+v+")", p, elem)
	} else {
		val := b.value(b.vc.load(b.st, p, elem), elem)
		b.stmts = append(b.stmts, fmt.Sprintf("%s := new(%s)", v, b.typeStr(elem)), fmt.Sprintf("*%s = %s", v, val))
	}
	return v
}

func (b *builder) isBackingArray(obj, fld *big.Int, elem types.Type) bool {
	_, ok := b.arrays[fmt.Sprintf("%s/%s/%s", obj, fld, typeKey(elem))]
	return ok
}

// ---- spec -> Go ----

type goTrans struct {
	vc      *VC
	pkg     *types.Package
	specs   map[string]bool
	helpers []string
	err     error
	olds    []string // old_k := expr statements (evaluated before the call)
	imports map[string]string
}

func (g *goTrans) fail(f string, a ...interface{}) {
	if g.err == nil {
		g.err = fmt.Errorf(f, a...)
	}
}

var boundRe = regexp.MustCompile(`^\(\((\S+) <= (\w+)\) && \((\w+) < (.+)\)\)$`)

func (g *goTrans) expr(e Expr) string {
	switch e := e.(type) {
	case *EIdent:
		return e.Name
	case *EInt:
		return e.Text
	case *EFloat:
		return e.Text
	case *EStr:
		return fmt.Sprintf("%q", e.Val)
	case *EChar:
		return fmt.Sprintf("%q", rune(e.Val))
	case *EUnary:
		return "(" + e.Op + g.expr(e.X) + ")"
	case *EBinary:
		switch e.Op {
		case "==>":
			return "(!(" + g.expr(e.X) + ") || (" + g.expr(e.Y) + "))"
		case "<==>":
			return "((" + g.expr(e.X) + ") == (" + g.expr(e.Y) + "))"
		}
		return "(" + g.expr(e.X) + " " + e.Op + " " + g.expr(e.Y) + ")"
	case *ESelector:
		return g.expr(e.X) + "." + e.Sel
	case *EIndex:
		return g.expr(e.X) + "[" + g.expr(e.I) + "]"
	case *ESlice:
		lo, hi := "", ""
		if e.Lo != nil {
			lo = g.expr(e.Lo)
		}
		if e.Hi != nil {
			hi = g.expr(e.Hi)
		}
		return g.expr(e.X) + "[" + lo + ":" + hi + "]"
	case *EType:
		return e.T.String()
	case *ECall:
		name := ""
		if id, ok := e.Fun.(*EIdent); ok {
			name = id.Name
		}
		var args []string
		for _, a := range e.Args {
			args = append(args, g.expr(a))
		}
		switch name {
		case "old":
			v := fmt.Sprintf("old%d", len(g.olds))
			g.olds = append(g.olds, fmt.Sprintf("%s := %s", v, args[0]))
			return v
		case "ite":
			return fmt.Sprintf("vite(%s, %s, %s)", args[0], args[1], args[2])
		case "elem_addr":
			return fmt.Sprintf("(&%s[%s])", args[0], args[1])
		case "index_in":
			return fmt.Sprintf("vindexIn(%s, %s)", args[0], args[1])
		case "has":
			return fmt.Sprintf("vhas(%s, %s)", args[0], args[1])
		case "fresh", "allocated", "same_elems":
			g.fail("%s() is not executable", name)
			return "true"
		case "round":
			g.imports["math"] = "math"
			return fmt.Sprintf("math.Round(%s)", args[0])
		case "fabs":
			g.imports["math"] = "math"
			return fmt.Sprintf("math.Abs(%s)", args[0])
		case "isnan":
			g.imports["math"] = "math"
			return fmt.Sprintf("math.IsNaN(%s)", args[0])
		case "isinf":
			g.imports["math"] = "math"
			return fmt.Sprintf("math.IsInf(%s, 0)", args[0])
		}
		if sf := g.vc.findSpec(name, g.pkg); sf != nil {
			g.specFunc(sf)
			return "vspec_" + name + "(" + strings.Join(args, ", ") + ")"
		}
		return g.expr(e.Fun) + "(" + strings.Join(args, ", ") + ")"
	case *EQuant:
		// only range-bounded quantifiers over one integer variable are executable
		if len(e.Vars) != 1 {
			// nest
			inner := &EQuant{Forall: e.Forall, Vars: e.Vars[1:], Body: e.Body}
			outer := &EQuant{Forall: e.Forall, Vars: e.Vars[:1], Body: inner}
			return g.quant(outer)
		}
		return g.quant(e)
	}
	g.fail("expression %s is not executable", e)
	return "true"
}

// quant: forall i int :: lo <= i && i < hi ==> P   /  exists i int :: lo <= i && i < hi && P
func (g *goTrans) quant(e *EQuant) string {
	v := e.Vars[0].Name
	var guard, body Expr
	if e.Forall {
		if b, ok := e.Body.(*EBinary); ok && b.Op == "==>" {
			guard, body = b.X, b.Y
		} else if q, ok := e.Body.(*EQuant); ok && q.Forall {
			// forall i :: forall j :: ... : bounds are inside; cannot split
			_ = q
		}
	} else {
		guard, body = splitFirstConj(e.Body)
	}
	if guard == nil {
		g.fail("quantifier without an explicit range is not executable: %s", e)
		return "true"
	}
	lo, hi, rest, ok := rangeOf(guard, v)
	if !ok {
		g.fail("quantifier range not of the form lo <= %s && %s < hi: %s", v, v, guard)
		return "true"
	}
	cond := g.expr(body)
	if rest != nil {
		if e.Forall {
			cond = "(!(" + g.expr(rest) + ") || " + cond + ")"
		} else {
			cond = "(" + g.expr(rest) + " && " + cond + ")"
		}
	}
	if e.Forall {
		return fmt.Sprintf("func() bool { for %s := int(%s); %s < int(%s); %s++ { if !(%s) { return false } }; return true }()", v, g.expr(lo), v, g.expr(hi), v, cond)
	}
	return fmt.Sprintf("func() bool { for %s := int(%s); %s < int(%s); %s++ { if %s { return true } }; return false }()", v, g.expr(lo), v, g.expr(hi), v, cond)
}

// splitFirstConj flattens a conjunction and returns (range part, rest).
func conjuncts(e Expr, out *[]Expr) {
	if b, ok := e.(*EBinary); ok && b.Op == "&&" {
		conjuncts(b.X, out)
		conjuncts(b.Y, out)
		return
	}
	*out = append(*out, e)
}

func splitFirstConj(e Expr) (Expr, Expr) {
	var cs []Expr
	conjuncts(e, &cs)
	if len(cs) < 3 {
		if len(cs) == 2 {
			return e, &EIdent{Name: "true"}
		}
		return nil, nil
	}
	guard := &EBinary{Op: "&&", X: cs[0], Y: cs[1]}
	var rest Expr = cs[2]
	for _, c := range cs[3:] {
		rest = &EBinary{Op: "&&", X: rest, Y: c}
	}
	return guard, rest
}

// rangeOf extracts lo <= v && v < hi from a conjunction; remaining conjuncts are returned in rest.
func rangeOf(guard Expr, v string) (lo, hi, rest Expr, ok bool) {
	var cs []Expr
	conjuncts(guard, &cs)
	for _, c := range cs {
		b, isB := c.(*EBinary)
		if !isB {
			rest = andExpr(rest, c)
			continue
		}
		xid, xIs := b.X.(*EIdent)
		yid, yIs := b.Y.(*EIdent)
		switch {
		case b.Op == "<=" && yIs && yid.Name == v && lo == nil && !mentionsVar(b.X, v):
			lo = b.X
		case b.Op == "<" && yIs && yid.Name == v && lo == nil && !mentionsVar(b.X, v):
			lo = &EBinary{Op: "+", X: b.X, Y: &EInt{Text: "1"}}
		case b.Op == "<" && xIs && xid.Name == v && hi == nil && !mentionsVar(b.Y, v):
			hi = b.Y
		case b.Op == "<=" && xIs && xid.Name == v && hi == nil && !mentionsVar(b.Y, v):
			hi = &EBinary{Op: "+", X: b.Y, Y: &EInt{Text: "1"}}
		default:
			rest = andExpr(rest, c)
		}
	}
	return lo, hi, rest, lo != nil && hi != nil
}

func andExpr(a, b Expr) Expr {
	if a == nil {
		return b
	}
	return &EBinary{Op: "&&", X: a, Y: b}
}

func mentionsVar(e Expr, v string) bool {
	return regexp.MustCompile(`\b` + regexp.QuoteMeta(v) + `\b`).MatchString(e.String())
}

func (g *goTrans) specFunc(sf *SpecFunc) {
	if g.specs[sf.Name] {
		return
	}
	g.specs[sf.Name] = true
	if sf.Body == nil {
		g.fail("uninterpreted spec function %s is not executable", sf.Name)
		return
	}
	var ps []string
	for _, p := range sf.Params {
		ps = append(ps, p.Name+" "+p.T.String())
	}
	body := g.expr(sf.Body)
	g.helpers = append(g.helpers, fmt.Sprintf("func vspec_%s(%s) %s { return %s }", sf.Name, strings.Join(ps, ", "), sf.Result.String(), body))
}

const replayHelpers = `
func vite[T any](c bool, a, b T) T { if c { return a }; return b }
func vindexIn[T any](s []T, p *T) int { for i := range s { if &s[i] == p { return i } }; return -1 }
func vhas[K comparable, V any](m map[K]V, k K) bool { _, ok := m[k]; return ok }
`

// ---- test generation and execution ----

// canonicalPrefs: prefer models in which every pointer stored in entry memory points to
// a whole object (idx 0, fld 0) and stored slices are short.
func canonicalPrefs(query string) []string {
	var out []string
	re := regexp.MustCompile(`\(declare-const (\|M_[^|]*@entry\|) \(Array Ptr (Ptr|Slice)\)\)`)
	for _, m := range re.FindAllStringSubmatch(query, -1) {
		if m[2] == "Ptr" {
			out = append(out, fmt.Sprintf("(assert (forall ((p Ptr)) (! (and (= (p.idx (select %s p)) 0) (= (p.fld (select %s p)) 0)) :pattern ((select %s p)))))", m[1], m[1], m[1]))
		} else {
			out = append(out, fmt.Sprintf("(assert (forall ((p Ptr)) (! (and (<= (s.len (select %s p)) 2) (= (s.off (select %s p)) 0) (= (s.fld (select %s p)) 0)) :pattern ((select %s p)))))", m[1], m[1], m[1], m[1]))
		}
	}
	return out
}

func tryReplay(r *checkRun, o *Obligation, model string) (res *ReplayResult) {
	// first with global preferences for canonical models, then without
	if prefs := canonicalPrefs(o.Query); len(prefs) > 0 {
		if res := tryReplayWith(r, o, prefs); res != nil && res.Outcome != "skipped" {
			return res
		}
	}
	return tryReplayWith(r, o, nil)
}

func tryReplayWith(r *checkRun, o *Obligation, extra []string) (res *ReplayResult) {
	for iter := 0; iter < 6; iter++ {
		var more []string
		res, more = tryReplayOnce(r, o, extra)
		if res == nil {
			return &ReplayResult{Outcome: "skipped", Detail: "replay harness failed"}
		}
		if len(more) == 0 || res.Outcome != "skipped" {
			return res
		}
		extra = append(extra, more...)
	}
	return res
}

func tryReplayOnce(r *checkRun, o *Obligation, extra []string) (res *ReplayResult, shrink []string) {
	defer func() {
		if x := recover(); x != nil {
			fmt.Fprintln(os.Stderr, "replay panic:", x)
			res = &ReplayResult{Outcome: "skipped", Detail: fmt.Sprint("replay harness panic: ", x)}
		}
	}()
	var bref *builder
	vc := o.vc
	if vc == nil {
		res = &ReplayResult{Outcome: "skipped", Detail: "no VC context"}
		return res, shrinkOf(bref)
	}
	if o.Kind != "ensures" && o.Kind != "lemma" && o.Kind != "safety" && o.Kind != "requires" {
		res = &ReplayResult{Outcome: "skipped", Detail: "obligation kind " + o.Kind + " is internal to the proof (loop invariant / termination); no executable statement to replay"}
		return res, shrinkOf(bref)
	}
	sess, status, err := newSession(o.Query, 40*time.Second, extra...)
	if err != nil || sess == nil {
		res = &ReplayResult{Outcome: "skipped", Detail: fmt.Sprintf("no model from interactive solver session (%s %v)", status, err)}
		return res, shrinkOf(bref)
	}
	defer sess.close()
	var pkg *types.Package
	var pkgPath string
	if vc.fn != nil {
		pkg = vc.fn.Pkg.Pkg
	} else if vc.lemmaPkg != nil {
		pkg = vc.lemmaPkg.Pkg
	}
	if pkg == nil {
		res = &ReplayResult{Outcome: "skipped", Detail: "no package"}
		return res, shrinkOf(bref)
	}
	pkgPath = pkg.Path()
	var entrySt *State
	if vc.top != nil {
		entrySt = vc.top.entrySt
	} else if vc.entryCtx != nil {
		entrySt = vc.entryCtx.st
	}
	b := &builder{s: sess, vc: vc, st: entrySt, objs: map[string]string{}, arrays: map[string]string{}, arrLen: map[string]int{}, strs: map[string]string{}, pkg: pkg, imports: map[string]string{"testing": "testing", "fmt": "fmt"}, query: o.Query}
	bref = b
	g := &goTrans{vc: vc, pkg: pkg, specs: map[string]bool{}, imports: b.imports}
	var body []string
	emit := func(f string, a ...interface{}) { body = append(body, fmt.Sprintf(f, a...)) }
	if vc.fn != nil {
		fn := vc.fn
		fr := vc.top
		var argNames []string
		for i, p := range fn.Params {
			val := b.value(fr.params[i].T, p.Type())
			b.stmts = append(b.stmts, fmt.Sprintf("var %s %s = %s", p.Name(), b.typeStr(p.Type()), val), "_ = "+p.Name())
			argNames = append(argNames, p.Name())
		}
		if len(fn.FreeVars) > 0 {
			res = &ReplayResult{Outcome: "skipped", Detail: "closures with captured variables cannot be called from a test"}
		return res, shrinkOf(bref)
		}
		if b.err == nil && b.tooBig != "" {
			b.err = fmt.Errorf("%s", b.tooBig)
		}
		if b.err != nil {
			res = &ReplayResult{Outcome: "skipped", Detail: "model not representable as Go input: " + b.err.Error()}
		return res, shrinkOf(bref)
		}
		for _, rq := range vc.fc.Requires {
			emit("if !(%s) { fmt.Println(\"VERIF-REPLAY: input does not satisfy requires: %s\"); return }", g.expr(rq.E), strings.ReplaceAll(rq.Text, `"`, `'`))
		}
		// the call
		call := ""
		if fn.Signature.Recv() != nil {
			call = fmt.Sprintf("%s.%s(%s)", argNames[0], fn.Name(), strings.Join(argNames[1:], ", "))
			if _, isPtr := fn.Signature.Recv().Type().(*types.Pointer); !isPtr {
				call = fmt.Sprintf("%s.%s(%s)", argNames[0], fn.Name(), strings.Join(argNames[1:], ", "))
			}
		} else {
			call = fmt.Sprintf("%s(%s)", fn.Name(), strings.Join(argNames, ", "))
		}
		var clause string
		if o.Kind == "ensures" {
			// find the clause expression
			var ce Expr
			for k, en := range vc.fc.Ensures {
				if strings.HasSuffix(strings.SplitN(o.Name, "@", 2)[0], "#ensures"+labelOr(en.Label, k)) {
					ce = en.E
				}
			}
			if ce == nil {
				res = &ReplayResult{Outcome: "skipped", Detail: "clause not found"}
		return res, shrinkOf(bref)
			}
			clause = g.expr(ce)
		}
		for _, s := range g.olds {
			emit("%s", s)
		}
		nres := fn.Signature.Results().Len()
		var rnames []string
		for i := 0; i < nres; i++ {
			rnames = append(rnames, fmt.Sprintf("result%d", i))
		}
		emit("defer func() { if x := recover(); x != nil { fmt.Println(\"VERIF-REPLAY: PANIC:\", x) } }()")
		if nres > 0 {
			emit("%s := %s", strings.Join(rnames, ", "), call)
			for i, rn := range rnames {
				emit("_ = %s", rn)
				if nm := fn.Signature.Results().At(i).Name(); nm != "" && nm != "_" {
					emit("%s := %s; _ = %s", nm, rn, nm)
				}
			}
			if nres == 1 {
				emit("result := result0; _ = result")
			}
		} else {
			emit("%s", call)
		}
		if o.Kind == "ensures" {
			emit("if !(%s) { fmt.Println(\"VERIF-REPLAY: REPRODUCED: clause is false on the real code\") } else { fmt.Println(\"VERIF-REPLAY: clause holds on the real code for this input\") }", clause)
		} else {
			emit("fmt.Println(\"VERIF-REPLAY: no panic on the real code for this input\")")
		}
	} else if vc.lemma != nil {
		l := vc.lemma
		vars := map[string]Val{}
		for _, v := range l.Vars {
			val, ok := vc.entryCtx.lookup(v.Name)
			if !ok {
				res = &ReplayResult{Outcome: "skipped", Detail: "lemma variable not found"}
		return res, shrinkOf(bref)
			}
			vars[v.Name] = val
			b.stmts = append(b.stmts, fmt.Sprintf("var %s %s = %s", v.Name, b.typeStr(val.Typ), b.value(val.T, val.Typ)), "_ = "+v.Name)
		}
		if b.err == nil && b.tooBig != "" {
			b.err = fmt.Errorf("%s", b.tooBig)
		}
		if b.err != nil {
			res = &ReplayResult{Outcome: "skipped", Detail: "model not representable as Go input: " + b.err.Error()}
		return res, shrinkOf(bref)
		}
		emit("defer func() { if x := recover(); x != nil { fmt.Println(\"VERIF-REPLAY: PANIC:\", x) } }()")
		nconc := 0
		target := strings.SplitN(o.Name, "@", 2)[0]
		done := false
		for _, s := range l.Steps {
			if done {
				break
			}
			switch s.Kind {
			case "assume":
				emit("if !(%s) { fmt.Println(\"VERIF-REPLAY: input does not satisfy assumption: %s\"); return }", g.expr(s.E), strings.ReplaceAll(s.Text, `"`, `'`))
			case "call":
				res = &ReplayResult{Outcome: "skipped", Detail: "lemma uses callee contracts (call steps); only lemmas that execute bodies (exec) can be replayed"}
		return res, shrinkOf(bref)
			case "exec":
				callee := r.prog.FindFunc(pkgPath, s.Callee)
				if callee == nil {
					res = &ReplayResult{Outcome: "skipped", Detail: "callee not found"}
		return res, shrinkOf(bref)
				}
				var args []string
				for _, a := range s.Args {
					args = append(args, g.expr(a))
				}
				var call string
				if callee.Parent() != nil {
					res = &ReplayResult{Outcome: "skipped", Detail: "closure bodies cannot be called from a test"}
		return res, shrinkOf(bref)
				}
				if callee.Signature.Recv() != nil {
					call = fmt.Sprintf("%s.%s(%s)", args[0], callee.Name(), strings.Join(args[1:], ", "))
				} else {
					call = fmt.Sprintf("%s(%s)", callee.Name(), strings.Join(args, ", "))
				}
				if len(s.Results) > 0 {
					emit("%s := %s", strings.Join(s.Results, ", "), call)
					for _, rn := range s.Results {
						if rn != "_" {
							emit("_ = %s", rn)
						}
					}
				} else {
					emit("%s", call)
				}
			case "conclude":
				nconc++
				name := vc.qname + "#conclude" + labelOr(s.Label, nconc-1)
				if name == target {
					emit("if !(%s) { fmt.Println(\"VERIF-REPLAY: REPRODUCED: conclusion is false on the real code\") } else { fmt.Println(\"VERIF-REPLAY: conclusion holds on the real code for this input\") }", g.expr(s.E))
					done = true
				}
			}
		}
		if !done {
			res = &ReplayResult{Outcome: "skipped", Detail: "conclusion not found"}
		return res, shrinkOf(bref)
		}
	}
	if g.err != nil {
		res = &ReplayResult{Outcome: "skipped", Detail: "clause not executable: " + g.err.Error()}
		return res, shrinkOf(bref)
	}
	// spec text may mention imported packages (elf.PT_LOAD ...)
	all := strings.Join(body, "\n") + strings.Join(g.helpers, "\n")
	for _, imp := range pkg.Imports() {
		if regexp.MustCompile(`\b` + regexp.QuoteMeta(imp.Name()) + `\.`).MatchString(all) {
			b.imports[imp.Name()] = imp.Path()
		}
	}
	var src strings.Builder
	fmt.Fprintf(&src, "package %s\n\nimport (\n", pkg.Name())
	var ims []string
	for n, p := range b.imports {
		ims = append(ims, fmt.Sprintf("\t%s %q", n, p))
	}
	sort.Strings(ims)
	src.WriteString(strings.Join(ims, "\n"))
	src.WriteString("\n)\n")
	src.WriteString(replayHelpers)
	for _, h := range g.helpers {
		src.WriteString(h + "\n")
	}
	src.WriteString("\nfunc TestVerifReplay(verifT *testing.T) {\n")
	for _, s := range b.stmts {
		src.WriteString("\t" + s + "\n")
	}
	for _, s := range body {
		src.WriteString("\t" + s + "\n")
	}
	src.WriteString("}\n")
	return runReplayTest(pkgPath, src.String()), nil
}

func shrinkOf(b *builder) []string {
	if b == nil {
		return nil
	}
	return b.shrink
}

func runReplayTest(pkgPath, src string) *ReplayResult {
	dir := scratch()
	rel := strings.TrimPrefix(strings.TrimPrefix(pkgPath, modPath), "/")
	testFile := filepath.Join(dir, fmt.Sprintf("replay_%d_test.go", time.Now().UnixNano()))
	os.WriteFile(testFile, []byte(src), 0o644)
	ov := map[string]map[string]string{"Replace": {filepath.Join(repoDir, rel, "zz_verif_replay_test.go"): testFile}}
	ovFile := testFile + ".overlay.json"
	data, _ := json.Marshal(ov)
	os.WriteFile(ovFile, data, 0o644)
	ctx, cancel := context.WithTimeout(context.Background(), 120*time.Second)
	defer cancel()
	cmdline := fmt.Sprintf("ulimit -v 4000000; cd %s && go test -overlay %s -vet=off -count=1 -timeout 60s -run '^TestVerifReplay$' -v ./%s", repoDir, ovFile, rel)
	cmd := exec.CommandContext(ctx, "bash", "-c", cmdline)
	cmd.Env = append(os.Environ(), "GOFLAGS=-mod=mod", "GOPROXY=off", "GOSUMDB=off", "GOTOOLCHAIN=local")
	out, _ := cmd.CombinedOutput()
	res := &ReplayResult{Test: src, Output: truncate(string(out), 3000), Cmd: "go test -overlay <ov.json> -vet=off -count=1 -timeout 60s -run '^TestVerifReplay$' ./" + rel}
	switch {
	case strings.Contains(string(out), "VERIF-REPLAY: REPRODUCED") || strings.Contains(string(out), "VERIF-REPLAY: PANIC"):
		res.Outcome = "reproduced"
		res.Detail = "the real code violates the clause on the input extracted from the solver model"
	case strings.Contains(string(out), "VERIF-REPLAY:"):
		res.Outcome = "not-reproduced"
		res.Detail = "the real code satisfies the clause on this input: the model lives in an abstraction (uninterpreted strings/functions, unconstrained external results)"
	default:
		res.Outcome = "error"
		res.Detail = "replay test did not build or run"
	}
	return res
}

func cmdReplay(args []string) int {
	if len(args) < 1 {
		usage()
	}
	data, err := os.ReadFile(args[0])
	if err != nil {
		fmt.Fprintln(os.Stderr, err)
		return 2
	}
	var rec struct {
		Property   string        `json:"property"`
		Obligation string        `json:"obligation"`
		Replay     *ReplayResult `json:"replay"`
	}
	if err := json.Unmarshal(data, &rec); err != nil || rec.Replay == nil || rec.Replay.Test == "" {
		fmt.Printf("replay file %s carries no executable test (obligation %s): no-failing-input-found\n", args[0], rec.Obligation)
		return 0
	}
	// find package from the test source
	m := regexp.MustCompile(`-run '\^TestVerifReplay\$' \./(\S+)`).FindStringSubmatch(rec.Replay.Cmd)
	if m == nil {
		fmt.Println("cannot determine package")
		return 2
	}
	res := runReplayTest(modPath+"/"+m[1], rec.Replay.Test)
	fmt.Println(res.Output)
	fmt.Println("outcome:", res.Outcome)
	if res.Outcome == "reproduced" {
		return 1
	}
	return 0
}

var _ ssa.Value
