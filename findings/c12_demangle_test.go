package symbolizer

import (
	"testing"

	"github.com/google/pprof/profile"
)

// Demonstration candidate for C12: demangling replaces a non-empty name by an empty one.
func TestVerifFindingDemangleEmptiesName(t *testing.T) {
	for _, name := range []string{"(a::b)", "<x>::", "(anonymous namespace)", "<lambda>", "(a)::(b)"} {
		for _, mode := range []string{"", "templates", "full"} {
			fn := &profile.Function{ID: 1, Name: name, SystemName: name}
			p := &profile.Profile{Function: []*profile.Function{fn}}
			Demangle(p, false, mode)
			if fn.Name == "" {
				t.Errorf("VERIF-FINDING: Demangle(mode %q) replaced the name %q by the empty string", mode, name)
			}
		}
	}
}
