package main

// Lemmas: proved from the contracts of the functions they call, never from bodies.

import (
	"fmt"
	"go/types"
	"strings"

	"golang.org/x/tools/go/ssa"
)

func (r *checkRun) genLemma(pl PropFunc) *VC {
	path := modPath + "/" + pl.Pkg
	cf := r.prog.Contracts[path]
	qn := r.prog.shortPkg(path) + ".lemma." + pl.Name
	if cf == nil || cf.Lemmas[pl.Name] == nil {
		r.bindErrs = append(r.bindErrs, fmt.Sprintf("%s: lemma not found", qn))
		return nil
	}
	l := cf.Lemmas[pl.Name]
	if l.Axiom {
		r.trusted["axiom "+qn+": "+l.Text] = true
		return nil
	}
	sp := r.prog.SSAPkgs[path]
	vc := GenLemma(r.prog, sp, l, qn)
	for _, e := range vc.errs {
		r.bindErrs = append(r.bindErrs, qn+": "+e)
	}
	for k := range vc.enc.trusted {
		r.trusted[k] = true
	}
	for k := range vc.enc.notes {
		r.notes[qn+": "+k] = true
	}
	r.funcs = append(r.funcs, map[string]interface{}{"name": qn, "kind": "lemma", "arith": l.Arith, "steps": len(l.Steps), "obligations": len(vc.obls)})
	return vc
}

func GenLemma(prog *Prog, sp *ssa.Package, l *Lemma, qn string) *VC {
	curDefs = map[string]string{}
	enc := NewEncoder(prog, l.Arith)
	enc.basePrelude()
	vc := &VC{enc: enc, prog: prog, clos: map[string]*closureVal{}, memDeclared: map[string]bool{}, recSpecs: map[string]*recSpecInfo{}, nameCount: map[string]int{}}
	vc.qname = qn
	vc.lemma = l
	vc.lemmaPkg = sp
	enc.addPre("wm@entry", "(declare-const wm@entry Int)\n(assert (>= wm@entry 0))")
	st := &State{mem: map[string]string{}, wm: "wm@entry", epoch: vc.newEpoch("entry", nil, nil)}
	entry := st.clone()
	vars := map[string]Val{}
	lk := func(name string) (Val, bool) { v, ok := vars[name]; return v, ok }
	ctx := &SpecCtx{vc: vc, lookup: lk, st: st, oldSt: entry, oldLookup: lk, pkg: sp.Pkg}
	vc.entryCtx = &SpecCtx{vc: vc, lookup: lk, st: entry, oldSt: entry, oldLookup: lk, pkg: sp.Pkg}
	if l.E != nil {
		// plain lemma: a closed formula
		t, err := ctx.EvalBool(l.E)
		if err != nil {
			vc.errorf("lemma %s: %v", l.Name, err)
			return vc
		}
		vc.oblige("lemma", "holds", l.Text, "", "true", t)
		return vc
	}
	for _, v := range l.Vars {
		t := ctx.resolveTypeSafe(v.T)
		if t == nil {
			vc.errorf("lemma %s: unknown type %s", l.Name, v.T)
			return vc
		}
		name := "|" + v.Name + "@in|"
		vc.emit(fmt.Sprintf("(declare-const %s %s)", name, enc.sortOf(t)))
		vc.assume(enc.wellFormed(name, t, st.wm))
		vars[v.Name] = Val{T: name, Typ: t}
	}
	node := &Node{reach: "true", st: st}
	nconc := 0
	covered := false
	addCover := func() {
		if covered {
			return
		}
		covered = true
		cover := vc.oblige("cover", "cover.assumptions", "lemma assumptions (before the first call) are satisfiable", "", "true", "false")
		cover.ExpectFail = true
	}
	for _, s := range l.Steps {
		ctx.st = node.st
		if s.Kind == "call" || s.Kind == "exec" {
			addCover()
		}
		switch s.Kind {
		case "let":
			v, err := ctx.EvalVal(s.E)
			if err != nil {
				vc.errorf("lemma %s let %q: %v", l.Name, s.Text, err)
				continue
			}
			// an opaque name equal to the value (keeps element accesses in idx form)
			name := vc.decl("let."+s.Results[0], enc.sortOf(v.Typ))
			vc.emit(fmt.Sprintf("(assert (= %s %s))", name, v.T))
			vars[s.Results[0]] = Val{T: name, Typ: v.Typ}
		case "use":
			// a previously proved lemma (its own obligation is discharged separately) may be used as a fact
			cf := prog.Contracts[sp.Pkg.Path()]
			ul := cf.Lemmas[s.Callee]
			if ul == nil || ul.E == nil {
				vc.errorf("lemma %s: cannot use %s (not a plain lemma of this package)", l.Name, s.Callee)
				continue
			}
			if ul.Line >= l.Line {
				vc.errorf("lemma %s: used lemma %s must be stated earlier (no circular use)", l.Name, s.Callee)
				continue
			}
			t, err := ctx.EvalBool(ul.E)
			if err != nil {
				vc.errorf("lemma %s use %s: %v", l.Name, s.Callee, err)
				continue
			}
			vc.assume(t)
			vc.uses = append(vc.uses, s.Callee)
		case "assume":
			t, err := ctx.EvalBool(s.E)
			if err != nil {
				vc.errorf("lemma %s assume %q: %v", l.Name, s.Text, err)
				continue
			}
			vc.assume(t)
		case "conclude":
			t, err := ctx.EvalBool(s.E)
			if err != nil {
				vc.errorf("lemma %s conclude %q: %v", l.Name, s.Text, err)
				continue
			}
			nconc++
			vc.oblige("lemma", "conclude"+labelOr(s.Label, nconc-1), s.Text, "", "true", t)
			vc.assume(t)
		case "call", "exec":
			pkgPath := sp.Pkg.Path()
			name := s.Callee
			if i := strings.Index(name, ":"); i >= 0 {
				pkgPath = modPath + "/" + name[:i]
				name = name[i+1:]
			}
			callee := prog.FindFunc(pkgPath, name)
			if callee == nil {
				vc.errorf("lemma %s: callee %s not found", l.Name, s.Callee)
				continue
			}
			fc := prog.ContractFor(callee)
			if fc == nil && s.Kind == "call" {
				vc.errorf("lemma %s: callee %s has no contract", l.Name, s.Callee)
				continue
			}
			var args []Val
			for i, a := range s.Args {
				v, err := ctx.EvalVal(a)
				if err != nil {
					vc.errorf("lemma %s call %s arg %d: %v", l.Name, s.Callee, i, err)
					continue
				}
				if i < len(callee.Params) {
					pt := callee.Params[i].Type()
					if v.T == "nil" && v.Typ == types.Typ[types.UntypedNil] {
						v = Val{T: enc.zero(pt), Typ: pt}
					}
					if cv, ok := a.(*EInt); ok {
						_ = cv
						v = ctx.materialize(Val{Const: ctx.eval(a).Const}, pt)
					}
				}
				args = append(args, v)
			}
			if len(args) != len(callee.Params) {
				vc.errorf("lemma %s call %s: %d args for %d params", l.Name, s.Callee, len(args), len(callee.Params))
				continue
			}
			var results []Val
			if s.Kind == "exec" {
				// the body itself is executed symbolically (used for relational laws such as comparator axioms)
				node.env = map[ssa.Value]Val{}
				saveNS := vc.noSafety
				vc.noSafety = true
				rs, ok := vc.inlineBody(0, nil, node, callee, nil, args, "x."+callee.Name(), "")
				vc.noSafety = saveNS
				if !ok {
					continue
				}
				results = rs
			} else {
				results = vc.lemmaCall(node, callee, fc, args, s)
			}
			for i, rn := range s.Results {
				if i < len(results) && rn != "_" {
					vars[rn] = results[i]
				}
			}
		}
	}
	addCover()
	if nconc == 0 {
		vc.errorf("lemma %s has no conclusion", l.Name)
	}
	return vc
}

func (c *SpecCtx) resolveTypeSafe(te *TypeExpr) (t types.Type) {
	defer func() {
		if r := recover(); r != nil {
			t = nil
		}
	}()
	return c.resolveType(te)
}

// lemmaCall applies a callee's contract: requires become obligations of the lemma.
func (vc *VC) lemmaCall(n *Node, callee *ssa.Function, fc *FuncContract, args []Val, s *LemmaStep) []Val {
	params := map[string]Val{}
	for i, p := range callee.Params {
		params[p.Name()] = args[i]
	}
	lk := func(name string) (Val, bool) { v, ok := params[name]; return v, ok }
	pre := n.st.clone()
	ctx := &SpecCtx{vc: vc, lookup: lk, st: n.st, oldSt: pre, oldLookup: lk, pkg: callee.Pkg.Pkg}
	for k, rq := range fc.Requires {
		t, err := ctx.EvalBool(rq.E)
		if err != nil {
			vc.errorf("requires of %s: %v", fc.Name, err)
			continue
		}
		vc.oblige("requires", fmt.Sprintf("call.%s.requires%s", fc.Name, labelOr(rq.Label, k)), rq.Text, "", "true", t)
		vc.assume(t)
	}
	if !fc.Pure {
		vc.havocMods(n, vc.prog.ModSetOf(callee))
	}
	results := vc.freshResults(n, "r."+fc.Name, callee.Signature)
	rn := vc.calleeResultNames(callee, results)
	lk2 := func(name string) (Val, bool) {
		if v, ok := rn[name]; ok {
			return v, true
		}
		v, ok := params[name]
		return v, ok
	}
	ctx2 := &SpecCtx{vc: vc, lookup: lk2, st: n.st, oldSt: pre, oldLookup: lk, pkg: callee.Pkg.Pkg}
	for _, en := range fc.Ensures {
		t, err := ctx2.EvalBool(en.E)
		if err != nil {
			vc.errorf("ensures of %s: %v", fc.Name, err)
			continue
		}
		vc.assume(t)
	}
	return results
}
