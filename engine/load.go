package main

import (
	"crypto/sha256"
	"fmt"
	"go/ast"
	"go/token"
	"go/types"
	"os"
	"path/filepath"
	"sort"
	"strings"

	"golang.org/x/tools/go/packages"
	"golang.org/x/tools/go/ssa"
	"golang.org/x/tools/go/ssa/ssautil"
)

var repoDir = envOr("PVERIF_REPO", "/repo")
const modPath = "github.com/google/pprof"
const contractFileName = "zz_verif_contracts.go"

type Prog struct {
	detCache   map[*ssa.Function]bool
	capPass    *ssa.Function
	capOnly    map[*ssa.Function]map[string][]int
	immGlobals map[*ssa.Global]bool
	Fset      *token.FileSet
	Pkgs      []*packages.Package
	SSA       *ssa.Program
	SSAPkgs   map[string]*ssa.Package // by package path
	Contracts map[string]*ContractFile // by package path
	byName    map[string]*packages.Package
	globalIDs map[*ssa.Global]int
	fnIDs     map[*ssa.Function]int
	modsets   map[*ssa.Function]*ModSet
	implCache map[string][]*ssa.Function
	assumed   map[string]bool // global modelling assumptions used by mod-set computation
	escaped   map[string]bool // struct field keys whose address escapes (computed once)
}

var curProg *Prog

// fieldKey identifies a field of a named struct type.
func fieldKey(t types.Type, i int) string { return fmt.Sprintf("%s#%d", typeKey(t), i) }

func isCellType(t types.Type) bool {
	switch t.Underlying().(type) {
	case *types.Struct, *types.Array:
		return false
	}
	return true
}

// computeEscapes: a field of a pprof-declared named struct is *private* when every
// FieldAddr of it in the whole module is used only by direct loads and stores. Private
// fields get their own memory (no pointer can alias them); the others share the
// per-type memory with every other cell of that type.
func (p *Prog) computeEscapes() {
	p.escaped = map[string]bool{}
	for fn := range ssautil.AllFunctions(p.SSA) {
		if fn.Pkg == nil && fn.Parent() == nil {
			continue
		}
		for _, b := range fn.Blocks {
			for _, in := range b.Instrs {
				fa, ok := in.(*ssa.FieldAddr)
				if !ok {
					continue
				}
				st := fa.X.Type().Underlying().(*types.Pointer).Elem()
				ft := st.Underlying().(*types.Struct).Field(fa.Field).Type()
				if !isCellType(ft) {
					continue
				}
				refs := fa.Referrers()
				if refs == nil {
					continue
				}
				for _, r := range *refs {
					switch x := r.(type) {
					case *ssa.DebugRef:
					case *ssa.UnOp:
						if x.Op != token.MUL {
							p.escaped[fieldKey(st, fa.Field)] = true
						}
					case *ssa.Store:
						if x.Addr != fa || x.Val == fa {
							p.escaped[fieldKey(st, fa.Field)] = true
						}
					default:
						p.escaped[fieldKey(st, fa.Field)] = true
					}
				}
			}
		}
	}
}

// fieldMem returns the name of the private memory of field i of struct type t, or "".
func (p *Prog) fieldMem(t types.Type, i int) string {
	n, ok := t.(*types.Named)
	if !ok || n.Obj().Pkg() == nil || !strings.HasPrefix(n.Obj().Pkg().Path(), modPath) {
		return ""
	}
	st, ok := t.Underlying().(*types.Struct)
	if !ok || !isCellType(st.Field(i).Type()) {
		return ""
	}
	if p.escaped == nil {
		p.computeEscapes()
	}
	if p.escaped[fieldKey(t, i)] {
		return ""
	}
	return "F_" + typeKey(t) + "." + st.Field(i).Name()
}

func LoadProg(pkgPaths []string) (*Prog, error) {
	cfg := &packages.Config{
		Mode:       packages.LoadAllSyntax,
		Dir:        repoDir,
		BuildFlags: []string{"-tags=verif"},
		Env:        append(os.Environ(), "GOFLAGS=-mod=mod", "GOPROXY=off", "GOSUMDB=off", "GOTOOLCHAIN=local"),
		Tests:      false,
	}
	// the whole module is always loaded: whole-program facts (which struct fields never have
	// their address taken, mod-sets) must not depend on which property is being checked
	pats := []string{"./..."}
	pkgs, err := packages.Load(cfg, pats...)
	if err != nil {
		return nil, err
	}
	nerr := 0
	packages.Visit(pkgs, nil, func(p *packages.Package) {
		for _, e := range p.Errors {
			fmt.Fprintf(os.Stderr, "load error: %v\n", e)
			nerr++
		}
	})
	if nerr > 0 {
		return nil, fmt.Errorf("%d package load errors", nerr)
	}
	prog, ssapkgs := ssautil.AllPackages(pkgs, ssa.GlobalDebug|ssa.BareInits)
	prog.Build()
	P := &Prog{Fset: prog.Fset, Pkgs: pkgs, SSA: prog, SSAPkgs: map[string]*ssa.Package{}, Contracts: map[string]*ContractFile{},
		byName: map[string]*packages.Package{}, globalIDs: map[*ssa.Global]int{}, fnIDs: map[*ssa.Function]int{}, modsets: map[*ssa.Function]*ModSet{}, implCache: map[string][]*ssa.Function{}, assumed: map[string]bool{}}
	curProg = P
	for i, p := range pkgs {
		P.SSAPkgs[p.PkgPath] = ssapkgs[i]
		P.byName[p.PkgPath] = p
	}
	// all reachable packages, for callee lookups
	for _, sp := range prog.AllPackages() {
		if _, ok := P.SSAPkgs[sp.Pkg.Path()]; !ok {
			P.SSAPkgs[sp.Pkg.Path()] = sp
		}
	}
	// contract files of every pprof package that has one
	for _, sp := range prog.AllPackages() {
		path := sp.Pkg.Path()
		if !strings.HasPrefix(path, modPath) {
			continue
		}
		rel := strings.TrimPrefix(strings.TrimPrefix(path, modPath), "/")
		cfPath := filepath.Join(repoDir, rel, contractFileName)
		if _, err := os.Stat(cfPath); err == nil {
			cf, err := ParseContractFile(cfPath, path)
			if err != nil {
				return nil, err
			}
			P.Contracts[path] = cf
		}
	}
	return P, nil
}

func envOr(k, d string) string {
	if v := os.Getenv(k); v != "" {
		return v
	}
	return d
}

func (p *Prog) globalID(g *ssa.Global) int {
	if id, ok := p.globalIDs[g]; ok {
		return id
	}
	id := -(len(p.globalIDs) + 1)
	p.globalIDs[g] = id
	return id
}

func (p *Prog) fnID(f *ssa.Function) int {
	if id, ok := p.fnIDs[f]; ok {
		return id
	}
	id := len(p.fnIDs) + 1
	p.fnIDs[f] = id
	return id
}

// contractName gives the name under which a function's contract is filed:
// "F", "T.m" (for both value and pointer receivers), "F$1" for closures.
func contractName(f *ssa.Function) string {
	if f.Parent() != nil {
		name := f.Name()
		return contractName(f.Parent()) + strings.TrimPrefix(name, f.Parent().Name())
	}
	if recv := f.Signature.Recv(); recv != nil {
		t := recv.Type()
		if pt, ok := t.(*types.Pointer); ok {
			t = pt.Elem()
		}
		if n, ok := t.(*types.Named); ok {
			return n.Obj().Name() + "." + f.Name()
		}
	}
	return f.Name()
}

// FindFunc resolves a contract name inside a package.
func (p *Prog) FindFunc(pkgPath, name string) *ssa.Function {
	sp := p.SSAPkgs[pkgPath]
	if sp == nil {
		return nil
	}
	var found *ssa.Function
	visit := func(f *ssa.Function) {
		var rec func(f *ssa.Function)
		rec = func(f *ssa.Function) {
			if contractName(f) == name {
				found = f
			}
			for _, a := range f.AnonFuncs {
				rec(a)
			}
		}
		rec(f)
	}
	for _, m := range sp.Members {
		switch m := m.(type) {
		case *ssa.Function:
			visit(m)
		case *ssa.Type:
			for _, t := range []types.Type{m.Type(), types.NewPointer(m.Type())} {
				ms := p.SSA.MethodSets.MethodSet(t)
				for i := 0; i < ms.Len(); i++ {
					if f := p.SSA.MethodValue(ms.At(i)); f != nil && f.Pkg == sp && f.Synthetic == "" {
						visit(f)
					}
				}
			}
		}
	}
	return found
}

// ContractFor returns the contract registered for a function, if any.
func (p *Prog) ContractFor(f *ssa.Function) *FuncContract {
	if f == nil || f.Pkg == nil {
		return nil
	}
	cf := p.Contracts[f.Pkg.Pkg.Path()]
	if cf == nil {
		return nil
	}
	return cf.Funcs[contractName(f)]
}

func (p *Prog) pkgRel(path string) string {
	return strings.TrimPrefix(strings.TrimPrefix(path, modPath), "/")
}

// funcSourceHash hashes the source text of a function declaration.
func (p *Prog) funcSourceHash(f *ssa.Function) (file string, line int, hash string) {
	syn := f.Syntax()
	if syn == nil {
		return "", 0, ""
	}
	pos := p.Fset.Position(syn.Pos())
	end := p.Fset.Position(syn.End())
	data, err := os.ReadFile(pos.Filename)
	if err != nil || end.Offset > len(data) {
		return pos.Filename, pos.Line, ""
	}
	h := sha256.Sum256(data[pos.Offset:end.Offset])
	return pos.Filename, pos.Line, fmt.Sprintf("%x", h[:8])
}

// debugNames collects, per function, source variable objects -> SSA values (via DebugRef).
type debugInfo struct {
	byObj map[types.Object][]*ssa.DebugRef
}

func collectDebug(f *ssa.Function) *debugInfo {
	d := &debugInfo{byObj: map[types.Object][]*ssa.DebugRef{}}
	for _, b := range f.Blocks {
		for _, in := range b.Instrs {
			if dr, ok := in.(*ssa.DebugRef); ok {
				if obj := dr.Object(); obj != nil {
					d.byObj[obj] = append(d.byObj[obj], dr)
				}
			}
		}
	}
	return d
}

// localObjects returns named local variable objects of function f by name (params, results, locals).
func localObjects(f *ssa.Function) map[string][]types.Object {
	out := map[string][]types.Object{}
	syn := f.Syntax()
	if syn == nil {
		return out
	}
	info := f.Pkg.Prog.Package(f.Pkg.Pkg) // unused; keep simple
	_ = info
	return out
}

func sortedKeys[V any](m map[string]V) []string {
	var ks []string
	for k := range m {
		ks = append(ks, k)
	}
	sort.Strings(ks)
	return ks
}

var _ = ast.Inspect
