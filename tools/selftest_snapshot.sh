#!/bin/bash
# selftest_snapshot.sh [prefix...]: run the must-fail corpus against a snapshot (a detached worktree of /repo HEAD, a
# copy of the checker binary, props, mutants and known findings), so that work in /repo and /verif during the long run
# cannot disturb it. Output: /tmp/selftest_snapshot.log
home=$(mktemp -d /tmp/sthome.XXXXXX); src=$(mktemp -d /tmp/stsrc.XXXXXX); rmdir $src
mkdir -p $home/bin $home/selftest; cp /verif/bin/pverif $home/bin/; cp -r /verif/props $home/props; cp -r /verif/selftest/mutants $home/selftest/mutants; cp /verif/known_findings.json $home/
git -C /repo worktree add --detach $src HEAD >/dev/null 2>&1 || exit 2
PVERIF_HOME=$home PVERIF_SELFTEST_SRC=$src GOFLAGS=-mod=mod GOPROXY=off GOSUMDB=off GOTOOLCHAIN=local $home/bin/pverif selftest "$@" > /tmp/selftest_snapshot.log 2>&1
git -C /repo worktree remove --force $src >/dev/null 2>&1; rm -rf $home $src
tail -1 /tmp/selftest_snapshot.log
