package main

// Static obligation kind "codec-table" (C01): for one protobuf message type, every
// field emitted by (*T).encode with tag k is decoded by entry k of T's decoder table
// into the same field with the matching wire kind. Discharged structurally over SSA.

import (
	"fmt"
	"go/constant"
	"go/token"
	"go/types"
	"sort"
	"strings"

	"golang.org/x/tools/go/ssa"
)

type encEntry struct {
	kind  string // Int64, Int64Opt, Int64s, Uint64, ..., Message
	tag   int64
	field string
	pos   string
}

type decEntry struct {
	kind   string
	fields []string
	typ    string
}

var kindCompat = map[string]string{
	"encodeInt64": "decodeInt64", "encodeInt64Opt": "decodeInt64", "encodeInt64s": "decodeInt64s",
	"encodeUint64": "decodeUint64", "encodeUint64Opt": "decodeUint64", "encodeUint64s": "decodeUint64s",
	"encodeString": "decodeString", "encodeStrings": "decodeStrings",
	"encodeBool": "decodeBool", "encodeBoolOpt": "decodeBool", "encodeMessage": "decodeMessage",
}

// fieldOf traces a value back to a field of the receiver.
func fieldOf(v ssa.Value, recv ssa.Value, depth int) string {
	if depth > 12 {
		return ""
	}
	switch x := v.(type) {
	case *ssa.FieldAddr:
		if derivesFrom(x.X, recv, 0) {
			st := x.X.Type().Underlying().(*types.Pointer).Elem().Underlying().(*types.Struct)
			return st.Field(x.Field).Name()
		}
		return fieldOf(x.X, recv, depth+1)
	case *ssa.Field:
		if derivesFrom(x.X, recv, 0) {
			st := x.X.Type().Underlying().(*types.Struct)
			return st.Field(x.Field).Name()
		}
		return fieldOf(x.X, recv, depth+1)
	case *ssa.UnOp:
		return fieldOf(x.X, recv, depth+1)
	case *ssa.IndexAddr:
		return fieldOf(x.X, recv, depth+1)
	case *ssa.Index:
		return fieldOf(x.X, recv, depth+1)
	case *ssa.MakeInterface:
		return fieldOf(x.X, recv, depth+1)
	case *ssa.ChangeType:
		return fieldOf(x.X, recv, depth+1)
	case *ssa.Convert:
		return fieldOf(x.X, recv, depth+1)
	case *ssa.Slice:
		return fieldOf(x.X, recv, depth+1)
	case *ssa.Extract:
		return fieldOf(x.Tuple, recv, depth+1)
	case *ssa.Next:
		return fieldOf(x.Iter, recv, depth+1)
	case *ssa.Range:
		return fieldOf(x.X, recv, depth+1)
	case *ssa.Phi:
		for _, e := range x.Edges {
			if f := fieldOf(e, recv, depth+1); f != "" {
				return f
			}
		}
	}
	return ""
}

func derivesFrom(v, recv ssa.Value, depth int) bool {
	if v == recv {
		return true
	}
	if depth > 6 {
		return false
	}
	switch x := v.(type) {
	case *ssa.Alloc:
		// local copy of a by-value receiver/parameter
		if x.Referrers() != nil {
			for _, r := range *x.Referrers() {
				if st, ok := r.(*ssa.Store); ok && st.Addr == x && derivesFrom(st.Val, recv, depth+1) {
					return true
				}
			}
		}
	case *ssa.UnOp:
		return derivesFrom(x.X, recv, depth+1)
	case *ssa.TypeAssert:
		return derivesFrom(x.X, recv, depth+1)
	case *ssa.ChangeType:
		return derivesFrom(x.X, recv, depth+1)
	case *ssa.Phi:
		for _, e := range x.Edges {
			if derivesFrom(e, recv, depth+1) {
				return true
			}
		}
	}
	return false
}

func runCodecTable(prog *Prog, sc StaticCheck) *StaticResult {
	res := &StaticResult{Name: sc.Name, Kind: sc.Kind}
	pkgPath := modPath + "/" + sc.Pkg
	sp := prog.SSAPkgs[pkgPath]
	T := sc.Args["type"]
	decVar := sc.Args["decoder"]
	fail := func(f string, a ...interface{}) {
		res.Obligations++
		res.Failures = append(res.Failures, fmt.Sprintf(f, a...))
	}
	if sp == nil {
		fail("package %s not loaded", sc.Pkg)
		return res
	}
	enc := prog.FindFunc(pkgPath, T+".encode")
	if enc == nil {
		fail("binding: %s.encode not found", T)
		return res
	}
	g, _ := sp.Members[decVar].(*ssa.Global)
	if g == nil {
		fail("binding: decoder table %s not found", decVar)
		return res
	}
	// ---- encoder side ----
	var encs []encEntry
	recv := enc.Params[0]
	for _, b := range enc.Blocks {
		for _, in := range b.Instrs {
			c, ok := in.(*ssa.Call)
			if !ok {
				continue
			}
			callee := c.Call.StaticCallee()
			if callee == nil || !strings.HasPrefix(callee.Name(), "encode") {
				continue
			}
			if _, known := kindCompat[callee.Name()]; !known {
				continue
			}
			tagc, ok := c.Call.Args[1].(*ssa.Const)
			if !ok || tagc.Value == nil {
				fail("%s.encode: %s with a non-constant tag at %s", T, callee.Name(), prog.Fset.Position(c.Pos()))
				continue
			}
			tag, _ := constant.Int64Val(tagc.Value)
			f := fieldOf(c.Call.Args[2], recv, 0)
			if f == "" {
				fail("%s.encode: cannot determine the field emitted with tag %d (%s)", T, tag, callee.Name())
				continue
			}
			ps := prog.Fset.Position(c.Pos())
			encs = append(encs, encEntry{kind: callee.Name(), tag: tag, field: f, pos: fmt.Sprintf("%s:%d", strings.TrimPrefix(ps.Filename, repoDir+"/"), ps.Line)})
		}
	}
	// ---- decoder side: closures stored into the table in the package initialiser ----
	decs := map[int64]*decEntry{}
	tableLen := int64(-1)
	initFn := sp.Func("init")
	if initFn == nil {
		fail("package init not found")
		return res
	}
	var arr *ssa.Alloc
	for _, b := range initFn.Blocks {
		for _, in := range b.Instrs {
			if st, ok := in.(*ssa.Store); ok && st.Addr == g {
				if sl, ok := st.Val.(*ssa.Slice); ok {
					if a, ok := sl.X.(*ssa.Alloc); ok {
						arr = a
						tableLen = a.Type().Underlying().(*types.Pointer).Elem().Underlying().(*types.Array).Len()
					}
				}
			}
		}
	}
	if arr == nil {
		fail("decoder table %s is not initialised by a slice literal", decVar)
		return res
	}
	for _, b := range initFn.Blocks {
		for _, in := range b.Instrs {
			st, ok := in.(*ssa.Store)
			if !ok {
				continue
			}
			ia, ok := st.Addr.(*ssa.IndexAddr)
			if !ok || ia.X != arr {
				continue
			}
			kc, ok := ia.Index.(*ssa.Const)
			if !ok {
				continue
			}
			k, _ := constant.Int64Val(kc.Value)
			var fn *ssa.Function
			val := st.Val
			for {
				if ct, ok := val.(*ssa.ChangeType); ok {
					val = ct.X
					continue
				}
				break
			}
			switch v := val.(type) {
			case *ssa.Function:
				fn = v
			case *ssa.MakeClosure:
				fn = v.Fn.(*ssa.Function)
			case *ssa.Const:
				continue // nil entry
			}
			if fn == nil {
				continue
			}
			decs[k] = analyseDecoder(fn)
		}
	}
	// ---- obligations ----
	seenTag := map[int64]string{}
	for _, e := range encs {
		res.Obligations++
		name := fmt.Sprintf("%s.%s#table(tag %d)", T, e.field, e.tag)
		if other, dup := seenTag[e.tag]; dup && other != e.field {
			res.Failures = append(res.Failures, fmt.Sprintf("%s: tag %d is used for two fields (%s and %s)", name, e.tag, other, e.field))
			continue
		}
		seenTag[e.tag] = e.field
		if e.tag <= 0 || e.tag >= tableLen {
			res.Failures = append(res.Failures, fmt.Sprintf("%s: tag outside the decoder table (len %d)", name, tableLen))
			continue
		}
		d := decs[e.tag]
		if d == nil {
			res.Failures = append(res.Failures, fmt.Sprintf("%s: encoder emits %s (%s) but decoder entry %d is nil", name, e.field, e.kind, e.tag))
			continue
		}
		want := kindCompat[e.kind]
		if d.kind != want {
			res.Failures = append(res.Failures, fmt.Sprintf("%s: encoded with %s but decoded with %s (want %s)", name, e.kind, d.kind, want))
			continue
		}
		okField := false
		for _, f := range d.fields {
			if f == e.field {
				okField = true
			}
		}
		if !okField {
			res.Failures = append(res.Failures, fmt.Sprintf("%s: encoder emits field %s, decoder entry %d writes %v", name, e.field, e.tag, d.fields))
			continue
		}
		if d.typ != "" && d.typ != T {
			res.Failures = append(res.Failures, fmt.Sprintf("%s: decoder entry asserts message type %s", name, d.typ))
			continue
		}
		res.Discharged++
		if len(res.Samples) < 3 {
			res.Samples = append(res.Samples, map[string]interface{}{"obligation": name, "encoder": e.kind, "decoder": d.kind, "field": e.field, "pos": e.pos})
		}
	}
	// every decoder entry corresponds to an emitted field (a decoder for a field the encoder never writes loses data on re-serialisation)
	var tags []int64
	for k := range decs {
		tags = append(tags, k)
	}
	sort.Slice(tags, func(i, j int) bool { return tags[i] < tags[j] })
	for _, k := range tags {
		res.Obligations++
		if _, ok := seenTag[k]; !ok {
			res.Failures = append(res.Failures, fmt.Sprintf("%s#table(tag %d): decoder entry writes %v but the encoder never emits tag %d", T, k, decs[k].fields, k))
			continue
		}
		res.Discharged++
	}
	// ---- optional sub-messages: a guard that tests fields of the sub-message must test every field the
	// sub-message emits, otherwise a message with only the untested field set is silently dropped ----
	for _, b := range enc.Blocks {
		for _, in := range b.Instrs {
			c, ok := in.(*ssa.Call)
			if !ok || c.Call.StaticCallee() == nil || c.Call.StaticCallee().Name() != "encodeMessage" || len(c.Call.Args) < 3 {
				continue
			}
			var sub string
			if mi, ok := c.Call.Args[2].(*ssa.MakeInterface); ok {
				sub = namedOf(mi.X.Type())
			}
			if sub == "" {
				continue
			}
			tested := map[string]bool{}
			for _, pb := range b.Preds {
				ifi, ok := pb.Instrs[len(pb.Instrs)-1].(*ssa.If)
				if !ok {
					continue
				}
				bin, ok := ifi.Cond.(*ssa.BinOp)
				if !ok || bin.Op != token.NEQ {
					continue
				}
				if u, ok := bin.X.(*ssa.UnOp); ok {
					if fa, ok := u.X.(*ssa.FieldAddr); ok && namedOf(fa.X.Type()) == sub {
						if cz, ok := bin.Y.(*ssa.Const); ok && cz.Value != nil {
							tested[fieldName(fa)] = true
						}
					}
				}
			}
			if len(tested) == 0 {
				continue
			}
			subEnc := prog.FindFunc(pkgPath, sub+".encode")
			if subEnc == nil {
				continue
			}
			res.Obligations++
			var missing []string
			recv2 := subEnc.Params[0]
			for _, sb := range subEnc.Blocks {
				for _, si := range sb.Instrs {
					sc2, ok := si.(*ssa.Call)
					if !ok || sc2.Call.StaticCallee() == nil {
						continue
					}
					if _, known := kindCompat[sc2.Call.StaticCallee().Name()]; !known || len(sc2.Call.Args) < 3 {
						continue
					}
					if f := fieldOf(sc2.Call.Args[2], recv2, 0); f != "" && !tested[sub+"."+f] {
						missing = append(missing, f)
					}
				}
			}
			if len(missing) > 0 {
				sort.Strings(missing)
				res.Failures = append(res.Failures, fmt.Sprintf("%s.encode: the %s sub-message at %s is emitted only when %v is non-zero, but %s also carries %v: a message with only those set is dropped", T, sub, posOf(prog, c.Pos()), keysOf(tested), sub, missing))
			} else {
				res.Discharged++
				res.Samples = append(res.Samples, map[string]interface{}{"obligation": fmt.Sprintf("%s.encode#guard of optional %s tests every emitted field %v", T, sub, keysOf(tested)), "backend": "static"})
			}
		}
	}
	res.Detail = map[string]interface{}{"type": T, "fields": len(encs), "decoder_entries": len(decs)}
	if len(encs) == 0 {
		fail("%s.encode emits no fields (vacuous)", T)
	}
	return res
}

func analyseDecoder(fn *ssa.Function) *decEntry {
	d := &decEntry{}
	if len(fn.Params) < 2 {
		return d
	}
	m := fn.Params[1]
	fields := map[string]bool{}
	for _, b := range fn.Blocks {
		for _, in := range b.Instrs {
			switch x := in.(type) {
			case *ssa.Call:
				if c := x.Call.StaticCallee(); c != nil && strings.HasPrefix(c.Name(), "decode") && d.kind == "" {
					d.kind = c.Name()
				}
			case *ssa.TypeAssert:
				if x.X == m {
					t := x.AssertedType
					if pt, ok := t.(*types.Pointer); ok {
						t = pt.Elem()
					}
					if n, ok := t.(*types.Named); ok {
						d.typ = n.Obj().Name()
					}
				}
			case *ssa.FieldAddr:
				if derivesFrom(x.X, m, 0) {
					st := x.X.Type().Underlying().(*types.Pointer).Elem().Underlying().(*types.Struct)
					fields[st.Field(x.Field).Name()] = true
				}
			}
		}
	}
	for f := range fields {
		d.fields = append(d.fields, f)
	}
	sort.Strings(d.fields)
	return d
}

func keysOf(m map[string]bool) []string {
	var out []string
	for k := range m {
		out = append(out, k)
	}
	sort.Strings(out)
	return out
}
