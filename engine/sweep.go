package main

// pverif sweep <pkg-rel> [name-regexp] [--timeout N] [--json file]
// Zero-annotation safety sweep (development aid and the source of the "nopanic" function lists in props/*.json):
// every function of the package that has no contract is given an empty one (arith int, no requires, no invariants:
// loops are havoced) and its safety obligations (index, slice, nil, division, panic, type assertion, callee
// preconditions) are generated and discharged. Functions whose obligations all discharge need no annotation to be
// panic free for every input; the others need a precondition, an invariant, or are defects.

import (
	"encoding/json"
	"fmt"
	"go/types"
	"os"
	"regexp"
	"sort"
	"strings"

	"golang.org/x/tools/go/ssa"
)

type sweepRow struct {
	Name   string   `json:"name"`
	Obls   int      `json:"obligations"`
	Failed []string `json:"failed,omitempty"`
	Errs   []string `json:"errors,omitempty"`
	MaxS   float64  `json:"max_s"`
	Has    bool     `json:"has_contract"`
}

func (p *Prog) allFuncs(pkgPath string) []*ssa.Function {
	sp := p.SSAPkgs[pkgPath]
	if sp == nil {
		return nil
	}
	var out []*ssa.Function
	seen := map[*ssa.Function]bool{}
	var rec func(f *ssa.Function)
	rec = func(f *ssa.Function) {
		if seen[f] || f.Blocks == nil {
			return
		}
		seen[f] = true
		out = append(out, f)
		for _, a := range f.AnonFuncs {
			rec(a)
		}
	}
	for _, m := range sp.Members {
		switch m := m.(type) {
		case *ssa.Function:
			rec(m)
		case *ssa.Type:
			for _, t := range []types.Type{m.Type(), types.NewPointer(m.Type())} {
				ms := p.SSA.MethodSets.MethodSet(t)
				for i := 0; i < ms.Len(); i++ {
					if f := p.SSA.MethodValue(ms.At(i)); f != nil && f.Pkg == sp && f.Synthetic == "" {
						rec(f)
					}
				}
			}
		}
	}
	sort.Slice(out, func(i, j int) bool { return out[i].Pos() < out[j].Pos() })
	return out
}

func cmdSweep(args []string) int {
	if len(args) < 1 {
		usage()
	}
	pkg := args[0]
	timeout := 3
	var re *regexp.Regexp
	jsonOut := ""
	for i := 1; i < len(args); i++ {
		switch args[i] {
		case "--timeout":
			i++
			fmt.Sscanf(args[i], "%d", &timeout)
		case "--json":
			i++
			jsonOut = args[i]
		default:
			re = regexp.MustCompile(args[i])
		}
	}
	prog, err := LoadProg([]string{pkg})
	if err != nil {
		fmt.Fprintln(os.Stderr, err)
		return 2
	}
	path := modPath + "/" + pkg
	cf := prog.Contracts[path]
	var rows []sweepRow
	for _, fn := range prog.allFuncs(path) {
		name := contractName(fn)
		if re != nil && !re.MatchString(name) {
			continue
		}
		if strings.HasSuffix(fn.Prog.Fset.Position(fn.Pos()).Filename, "_test.go") {
			continue
		}
		row := sweepRow{Name: name}
		var fc *FuncContract
		if cf != nil && cf.Funcs[name] != nil {
			row.Has = true
			rows = append(rows, row)
			continue
		}
		fc = &FuncContract{Name: name, Pkg: path, Arith: "int", Options: map[string]string{}}
		var vc *VC
		func() {
			defer func() {
				if r := recover(); r != nil {
					row.Errs = append(row.Errs, fmt.Sprintf("generator panic: %v", r))
				}
			}()
			vc = GenFunc(prog, fn, fc)
		}()
		if vc != nil {
			row.Errs = append(row.Errs, vc.errs...)
			runObligations(vc.obls, timeout, 16)
			row.Obls = len(vc.obls)
			for _, o := range vc.obls {
				if o.Result == nil {
					continue
				}
				if o.Result.TimeS > row.MaxS {
					row.MaxS = o.Result.TimeS
				}
				if o.Result.Status != "unsat" {
					row.Failed = append(row.Failed, fmt.Sprintf("%s [%s] %s", strings.TrimPrefix(o.Name, vc.qname+"#"), o.Result.Status, o.Pos))
				}
			}
		}
		mark := "ok  "
		if len(row.Failed) > 0 || len(row.Errs) > 0 {
			mark = "FAIL"
		}
		fmt.Printf("%s %-50s %3d obligations, %d failed, %d errors, max %.2fs\n", mark, name, row.Obls, len(row.Failed), len(row.Errs), row.MaxS)
		for _, f := range row.Failed {
			fmt.Println("       ", f)
		}
		for _, e := range row.Errs {
			fmt.Println("        error:", truncate(e, 200))
		}
		rows = append(rows, row)
	}
	if jsonOut != "" {
		data, _ := json.MarshalIndent(rows, "", " ")
		os.WriteFile(jsonOut, data, 0o644)
	}
	return 0
}
