package main

import (
	"fmt"
	"go/constant"
	"go/token"
	"go/types"
	"os"
	"sort"
	"strings"

	"golang.org/x/tools/go/ssa"
	"golang.org/x/tools/go/ssa/ssautil"
)

// Static (dataflow / syntactic) discharge of frame, lock and spawn obligations.

type StaticResult struct {
	Name        string
	Kind        string
	Obligations int
	Discharged  int
	Failures    []string
	Samples     []interface{}
	Trusted     []string
	Detail      interface{}
}

func runStatic(prog *Prog, sc StaticCheck) *StaticResult {
	res := &StaticResult{Name: sc.Name, Kind: sc.Kind}
	switch sc.Kind {
	case "codec-table":
		return runCodecTable(prog, sc)
	case "guarded-by":
		return runGuardedBy(prog, sc)
	case "spawn":
		return runSpawn(prog, sc)
	case "once-init":
		return runOnceInit(prog, sc)
	case "forbid-call":
		return runForbidCall(prog, sc)
	case "struct-init":
		return runStructInit(prog, sc)
	case "field-unset":
		return runFieldUnset(prog, sc)
	case "type-immutable":
		return runTypeImmutable(prog, sc)
	case "forbid-map-range":
		return runForbidMapRange(prog, sc)
	case "store-origin":
		return runStoreOrigin(prog, sc)
	case "global-state":
		return runGlobalState(prog, sc)
	case "call-order":
		return runCallOrder(prog, sc)
	case "import-check":
		return runImportCheck(prog, sc)
	case "escaped-format":
		return runEscapedFormat(prog, sc)
	case "no-reach":
		return runNoReach(prog, sc)
	case "arg-origin":
		return runArgOrigin(prog, sc)
	case "publishes-fresh":
		return runPublishesFresh(prog, sc)
	case "rmw-atomic":
		return runRMWAtomic(prog, sc)
	case "critical-section":
		return runCriticalSection(prog, sc)
	case "atomic-write":
		return runAtomicWrite(prog, sc)
	case "call-flags":
		return runCallFlags(prog, sc)
	case "field-types":
		return runFieldTypes(prog, sc)
	case "global-frame":
		return runGlobalFrame(prog, sc)
	case "frame":
		return runFrame(prog, sc)
	case "gate":
		return runGate(prog, sc)
	default:
		res.Obligations = 1
		res.Failures = append(res.Failures, "unknown static check kind "+sc.Kind)
	}
	return res
}

// runFrame: frame obligations "function F (transitively) never stores to X", discharged
// on the field-level modification set computed over the static call graph.
//   args: func = contract name; forbid = comma-separated store targets
//         (T.f | elem:T | map:T | append:T | deref:T | global:x); allow_unknown = "yes" to tolerate
//         calls with unknown effects (listed in the evidence as assumption).
// runGlobalFrame: no function of the module other than the initialiser of sc.Pkg stores to any of the
// listed locations (field "T.f", "elem:T", "append:T", "global:name"): the data they hold is
// immutable after package initialisation, which is what lets an init postcondition be used as a global invariant.
func runGlobalFrame(prog *Prog, sc StaticCheck) *StaticResult {
	res := &StaticResult{Name: sc.Name, Kind: sc.Kind}
	forbid := map[string]bool{}
	for _, f := range strings.Split(sc.Args["forbid"], ",") {
		if f = strings.TrimSpace(f); f != "" {
			forbid[f] = true
		}
	}
	initFn := prog.FindFunc(modPath+"/"+sc.Pkg, "init")
	if initFn == nil {
		res.Obligations = 1
		res.Failures = append(res.Failures, "binding: initialiser of "+sc.Pkg+" not found")
		return res
	}
	qual := func(p *types.Package) string { return p.Name() }
	nfn := 0
	var fns []*ssa.Function
	for fn := range ssautil.AllFunctions(prog.SSA) {
		if fn == initFn || fn.Blocks == nil {
			continue
		}
		pk := fn.Pkg
		for q := fn; pk == nil && q != nil; q = q.Parent() {
			pk = q.Pkg
		}
		if pk == nil || !strings.HasPrefix(pk.Pkg.Path(), modPath) {
			continue
		}
		fns = append(fns, fn)
	}
	sort.Slice(fns, func(i, j int) bool { return fns[i].String() < fns[j].String() })
	exempt := map[string]bool{}
	for _, e := range strings.Split(sc.Args["exempt"], ",") {
		if e = strings.TrimSpace(e); e != "" {
			exempt[e] = true
		}
	}
	usedExempt := map[string]bool{}
	for _, fn := range fns {
		nfn++
		res.Obligations++
		bad := ""
		short := fn.Name()
		if fn.Parent() == nil {
			short = contractName(fn)
		}
		if exempt[short] {
			usedExempt[short] = true
			res.Discharged++
			continue
		}
		for _, b := range fn.Blocks {
			for _, in := range b.Instrs {
				var what string
				switch x := in.(type) {
				case *ssa.Store:
					if freshRoot(x.Addr, nil) {
						continue
					}
					what = storeTarget(x.Addr)
				case *ssa.Call:
					if bi, ok := x.Call.Value.(*ssa.Builtin); ok && len(x.Call.Args) > 0 {
						if st, ok := x.Call.Args[0].Type().Underlying().(*types.Slice); ok {
							switch bi.Name() {
							case "append":
								what = "append:" + types.TypeString(st.Elem(), qual)
							case "copy":
								what = "elem:" + types.TypeString(st.Elem(), qual)
							}
						}
					}
				}
				if what != "" && forbid[what] {
					ps := prog.Fset.Position(in.Pos())
					bad = fmt.Sprintf("%s writes %s at %s:%d", fn.String(), what, strings.TrimPrefix(ps.Filename, repoDir+"/"), ps.Line)
				}
			}
		}
		if bad != "" {
			res.Failures = append(res.Failures, bad)
			continue
		}
		res.Discharged++
	}
	for e := range exempt {
		if !usedExempt[e] {
			res.Obligations++
			res.Failures = append(res.Failures, "exempt function "+e+" not found (stale)")
		}
	}
	if len(usedExempt) > 0 {
		var ex []string
		for e := range usedExempt {
			ex = append(ex, e)
		}
		sort.Strings(ex)
		res.Trusted = append(res.Trusted, fmt.Sprintf("global-frame %s: %v may write the locations: %s", sc.Name, ex, sc.Args["exempt_reason"]))
	}
	res.Samples = append(res.Samples, map[string]interface{}{"obligation": fmt.Sprintf("every function of the module except %s.init#frame(no store to %s)", sc.Pkg, sc.Args["forbid"]), "backend": "static store scan", "functions": nfn})
	res.Detail = map[string]interface{}{"functions_scanned": nfn, "forbid": sc.Args["forbid"]}
	if nfn == 0 {
		res.Obligations++
		res.Failures = append(res.Failures, "no functions scanned (vacuous)")
	}
	return res
}

// runFieldTypes: every field of struct type T has one of the allowed types. Discharges the reachability of
// "unsupported field type" panics in code that switches over the dynamic type of a reflected field pointer.
func runFieldTypes(prog *Prog, sc StaticCheck) *StaticResult {
	res := &StaticResult{Name: sc.Name, Kind: sc.Kind}
	pkg := prog.SSAPkgs[modPath+"/"+sc.Pkg]
	allowed := map[string]bool{}
	for _, a := range strings.Split(sc.Args["allowed"], ",") {
		allowed[strings.TrimSpace(a)] = true
	}
	var st *types.Struct
	if pkg != nil {
		if tn, ok := pkg.Members[sc.Args["type"]].(*ssa.Type); ok {
			st, _ = tn.Type().Underlying().(*types.Struct)
		}
	}
	if st == nil || st.NumFields() == 0 {
		res.Obligations = 1
		res.Failures = append(res.Failures, "binding: struct type "+sc.Args["type"]+" not found or empty")
		return res
	}
	for i := 0; i < st.NumFields(); i++ {
		f := st.Field(i)
		res.Obligations++
		ts := types.TypeString(f.Type(), func(p *types.Package) string { return p.Name() })
		if !allowed[ts] {
			res.Failures = append(res.Failures, fmt.Sprintf("%s.%s has type %s, outside {%s}", sc.Args["type"], f.Name(), ts, sc.Args["allowed"]))
			continue
		}
		res.Discharged++
	}
	res.Samples = append(res.Samples, map[string]interface{}{"obligation": fmt.Sprintf("%s#field-types(%s)", sc.Args["type"], sc.Args["allowed"]), "backend": "go/types", "fields": st.NumFields()})
	res.Trusted = append(res.Trusted, "reflect: Value.FieldByIndex(i).Addr().Interface() yields a pointer of the field's declared type")
	res.Detail = map[string]interface{}{"type": sc.Args["type"], "fields": st.NumFields()}
	return res
}

// runCallFlags: every call of <callee> inside <func> passes, at argument index <arg>, a constant that has all
// the bits of <flags> (a |-separated list of os.O_* names) set — e.g. exclusive creation of temporary files.
func runCallFlags(prog *Prog, sc StaticCheck) *StaticResult {
	res := &StaticResult{Name: sc.Name, Kind: sc.Kind}
	fn := prog.FindFunc(modPath+"/"+sc.Pkg, sc.Args["func"])
	if fn == nil {
		res.Obligations = 1
		res.Failures = append(res.Failures, "binding: function "+sc.Args["func"]+" not found")
		return res
	}
	known := map[string]int64{"O_CREATE": int64(os.O_CREATE), "O_EXCL": int64(os.O_EXCL), "O_RDWR": int64(os.O_RDWR), "O_WRONLY": int64(os.O_WRONLY), "O_TRUNC": int64(os.O_TRUNC), "O_APPEND": int64(os.O_APPEND)}
	var mask int64
	for _, f := range strings.Split(sc.Args["flags"], "|") {
		v, ok := known[strings.TrimSpace(f)]
		if !ok {
			res.Obligations = 1
			res.Failures = append(res.Failures, "unknown flag "+f)
			return res
		}
		mask |= v
	}
	var argIdx int
	fmt.Sscanf(sc.Args["arg"], "%d", &argIdx)
	sites := 0
	fns := append([]*ssa.Function{fn}, fn.AnonFuncs...)
	for _, f := range fns {
		for _, b := range f.Blocks {
			for _, in := range b.Instrs {
				ci, ok := in.(ssa.CallInstruction)
				if !ok || ci.Common().StaticCallee() == nil || ci.Common().StaticCallee().String() != sc.Args["callee"] {
					continue
				}
				sites++
				res.Obligations++
				args := ci.Common().Args
				if argIdx >= len(args) {
					res.Failures = append(res.Failures, "argument index out of range")
					continue
				}
				c, ok := args[argIdx].(*ssa.Const)
				if !ok || c.Value == nil {
					res.Failures = append(res.Failures, fmt.Sprintf("%s calls %s at %s with non-constant flags", sc.Args["func"], sc.Args["callee"], posOf(prog, in.Pos())))
					continue
				}
				v, _ := constant.Int64Val(c.Value)
				if v&mask != mask {
					res.Failures = append(res.Failures, fmt.Sprintf("%s calls %s at %s with flags %#x lacking %s", sc.Args["func"], sc.Args["callee"], posOf(prog, in.Pos()), v, sc.Args["flags"]))
					continue
				}
				res.Discharged++
				res.Samples = append(res.Samples, map[string]interface{}{"obligation": fmt.Sprintf("%s#call-flags(%s has %s) at %s", sc.Args["func"], sc.Args["callee"], sc.Args["flags"], posOf(prog, in.Pos())), "backend": "constant evaluation"})
			}
		}
	}
	if sites == 0 {
		res.Obligations++
		res.Failures = append(res.Failures, fmt.Sprintf("%s does not call %s (stale)", sc.Args["func"], sc.Args["callee"]))
	}
	res.Trusted = append(res.Trusted, "os.OpenFile with O_CREATE|O_EXCL fails if the file exists (atomic exclusive creation by the operating system)")
	return res
}

func runFrame(prog *Prog, sc StaticCheck) *StaticResult {
	res := &StaticResult{Name: sc.Name, Kind: sc.Kind}
	pkgPath := modPath + "/" + sc.Pkg
	fn := prog.FindFunc(pkgPath, sc.Args["func"])
	if fn == nil {
		res.Obligations = 1
		res.Failures = append(res.Failures, "binding: function "+sc.Args["func"]+" not found")
		return res
	}
	ms := prog.ModSetOf(fn)
	var forbid []string
	for _, f := range strings.Split(sc.Args["forbid"], ",") {
		if f = strings.TrimSpace(f); f != "" {
			forbid = append(forbid, f)
		}
	}
	res.Obligations++
	if ms.all && sc.Args["allow_unknown"] != "yes" {
		var u []string
		for k := range ms.unknown {
			u = append(u, k)
		}
		sort.Strings(u)
		res.Failures = append(res.Failures, fmt.Sprintf("%s: calls with unknown effects: %s", sc.Args["func"], strings.Join(u, "; ")))
	} else {
		res.Discharged++
		if ms.all {
			var u []string
			for k := range ms.unknown {
				u = append(u, k)
			}
			sort.Strings(u)
			res.Trusted = append(res.Trusted, fmt.Sprintf("frame of %s: dynamic calls assumed not to write the forbidden locations: %s", sc.Args["func"], strings.Join(u, "; ")))
		}
	}
	for _, f := range forbid {
		res.Obligations++
		if sites, ok := ms.sites[f]; ok && len(sites) > 0 {
			res.Failures = append(res.Failures, fmt.Sprintf("%s writes %s at %s", sc.Args["func"], f, strings.Join(sites, ", ")))
			continue
		}
		res.Discharged++
		if len(res.Samples) < 2 {
			res.Samples = append(res.Samples, map[string]interface{}{"obligation": fmt.Sprintf("%s#frame(no store to %s)", sc.Args["func"], f), "backend": "static mod-set"})
		}
	}
	var keys []string
	for k := range ms.sites {
		keys = append(keys, k)
	}
	sort.Strings(keys)
	res.Detail = map[string]interface{}{"func": sc.Args["func"], "writes": keys}
	return res
}

// runGate: path obligation "every successful return of F is dominated by a successful call of G":
// each return whose error result is the nil constant must be dominated by the not-error successor
// of a branch on the result of a call to G (e.g. ParseData returns a profile only after CheckValid).
func runGate(prog *Prog, sc StaticCheck) *StaticResult {
	res := &StaticResult{Name: sc.Name, Kind: sc.Kind}
	fn := prog.FindFunc(modPath+"/"+sc.Pkg, sc.Args["func"])
	if fn == nil {
		res.Obligations = 1
		res.Failures = append(res.Failures, "binding: function "+sc.Args["func"]+" not found")
		return res
	}
	gate := sc.Args["gate"]
	// successor blocks that are entered only when a call to the gate returned a nil error
	var okBlocks []*ssa.BasicBlock
	for _, b := range fn.Blocks {
		ifi, ok := b.Instrs[len(b.Instrs)-1].(*ssa.If)
		if !ok {
			continue
		}
		bin, ok := ifi.Cond.(*ssa.BinOp)
		if !ok || (bin.Op != token.NEQ && bin.Op != token.EQL) {
			continue
		}
		var other ssa.Value
		if c, ok := bin.Y.(*ssa.Const); ok && c.Value == nil {
			other = bin.X
		} else if c, ok := bin.X.(*ssa.Const); ok && c.Value == nil {
			other = bin.Y
		} else {
			continue
		}
		call, ok := other.(*ssa.Call)
		if !ok {
			if ex, ok2 := other.(*ssa.Extract); ok2 {
				call, ok = ex.Tuple.(*ssa.Call)
			}
			if !ok {
				continue
			}
		}
		callee := call.Call.StaticCallee()
		if callee == nil || contractName(callee) != gate {
			continue
		}
		// NEQ nil: false branch (Succs[1]) is the success branch; EQL nil: true branch
		succ := b.Succs[1]
		if bin.Op == token.EQL {
			succ = b.Succs[0]
		}
		if len(succ.Preds) == 1 {
			okBlocks = append(okBlocks, succ)
		}
	}
	nret := 0
	for _, b := range fn.Blocks {
		ret, ok := b.Instrs[len(b.Instrs)-1].(*ssa.Return)
		if !ok || len(ret.Results) == 0 {
			continue
		}
		last := ret.Results[len(ret.Results)-1]
		c, isConst := last.(*ssa.Const)
		if !isConst || c.Value != nil || !isErrorType(last.Type()) {
			// returns a (possibly) non-nil error: if it is not syntactically nil it must not be a success path we cannot see
			if !isConst {
				res.Obligations++
				// a non-constant error value: acceptable only if it is known non-nil (fmt.Errorf / errors.New result) or the block is gated
				if call, ok := last.(*ssa.Call); ok {
					if cal := call.Call.StaticCallee(); cal != nil && (cal.String() == "fmt.Errorf" || cal.String() == "errors.New") {
						res.Discharged++
						continue
					}
				}
				gated := false
				for _, ob := range okBlocks {
					if ob.Dominates(b) {
						gated = true
					}
				}
				// the returned error is known non-nil here: the block is dominated by the true branch of `if V != nil`
				// (or the false branch of `if V == nil`) on this very value
				if !gated && errKnownNonNil(last, b) {
					res.Discharged++
					continue
				}
				if gated {
					res.Discharged++
					nret++
				} else {
					res.Failures = append(res.Failures, fmt.Sprintf("%s returns an error value that may be nil at %s without passing %s", sc.Args["func"], prog.Fset.Position(ret.Pos()), gate))
				}
			}
			continue
		}
		nret++
		res.Obligations++
		gated := false
		for _, ob := range okBlocks {
			if ob.Dominates(b) {
				gated = true
			}
		}
		if gated {
			res.Discharged++
			res.Samples = append(res.Samples, map[string]interface{}{"obligation": fmt.Sprintf("%s#gate(%s) return at %s", sc.Args["func"], gate, prog.Fset.Position(ret.Pos())), "backend": "static dominance"})
		} else {
			res.Failures = append(res.Failures, fmt.Sprintf("%s has a successful return at %s that is not dominated by a successful call to %s", sc.Args["func"], prog.Fset.Position(ret.Pos()), gate))
		}
	}
	if nret == 0 {
		res.Obligations++
		res.Failures = append(res.Failures, sc.Args["func"]+": no successful return found (vacuous gate)")
	}
	return res
}

// runArgOrigin: every call of <callee> inside <func> (directly or through a package-level function variable that
// is only assigned in the initialiser) passes, at argument index <arg>, the immediate result of a call of <origin>.
func runArgOrigin(prog *Prog, sc StaticCheck) *StaticResult {
	res := &StaticResult{Name: sc.Name, Kind: sc.Kind}
	fn := prog.FindFunc(modPath+"/"+sc.Pkg, sc.Args["func"])
	if fn == nil {
		res.Obligations = 1
		res.Failures = append(res.Failures, "binding: function "+sc.Args["func"]+" not found")
		return res
	}
	var argIdx int
	fmt.Sscanf(sc.Args["arg"], "%d", &argIdx)
	sites := 0
	for _, f := range append([]*ssa.Function{fn}, fn.AnonFuncs...) {
		for _, b := range f.Blocks {
			for _, in := range b.Instrs {
				ci, ok := in.(ssa.CallInstruction)
				if !ok {
					continue
				}
				callee := ci.Common().StaticCallee()
				if callee == nil {
					callee = prog.globalFuncInit(ci.Common().Value)
				}
				if callee == nil || contractName(callee) != sc.Args["callee"] {
					continue
				}
				sites++
				res.Obligations++
				args := ci.Common().Args
				okOrigin := false
				if argIdx < len(args) {
					// produced in the same basic block as the consuming call: one fresh value per execution of the call
					if oc, ok := args[argIdx].(*ssa.Call); ok && oc.Call.StaticCallee() != nil && contractName(oc.Call.StaticCallee()) == sc.Args["origin"] && oc.Block() == in.Block() {
						// and used by nothing else
						uses := 0
						if refs := oc.Referrers(); refs != nil {
							for _, r := range *refs {
								if _, dbg := r.(*ssa.DebugRef); !dbg {
									uses++
								}
							}
						}
						if uses == 1 {
							okOrigin = true
						}
					}
				}
				if okOrigin {
					res.Discharged++
					res.Samples = append(res.Samples, map[string]interface{}{"obligation": fmt.Sprintf("%s#arg %d of %s is a fresh %s() at %s", sc.Args["func"], argIdx, sc.Args["callee"], sc.Args["origin"], posOf(prog, in.Pos())), "backend": "def-use"})
				} else {
					res.Failures = append(res.Failures, fmt.Sprintf("%s calls %s at %s with argument %d not produced by %s()", sc.Args["func"], sc.Args["callee"], posOf(prog, in.Pos()), argIdx, sc.Args["origin"]))
				}
			}
		}
	}
	if sites == 0 {
		res.Obligations++
		res.Failures = append(res.Failures, fmt.Sprintf("%s does not call %s (stale)", sc.Args["func"], sc.Args["callee"]))
	}
	return res
}

// runNoReach: no function in <targets> is reachable from <func> over the static call graph (direct calls,
// closures made or called along the way, package-level function variables fixed at initialisation, and every
// in-module implementation of an interface method that is invoked).
func runNoReach(prog *Prog, sc StaticCheck) *StaticResult {
	res := &StaticResult{Name: sc.Name, Kind: sc.Kind}
	fn := prog.FindFunc(modPath+"/"+sc.Pkg, sc.Args["func"])
	if fn == nil {
		res.Obligations = 1
		res.Failures = append(res.Failures, "binding: function "+sc.Args["func"]+" not found")
		return res
	}
	targets := map[string]bool{}
	found := map[string]bool{}
	for _, t := range strings.Split(sc.Args["targets"], ",") {
		if t = strings.TrimSpace(t); t != "" {
			targets[t] = true
			if prog.FindFunc(modPath+"/"+sc.Pkg, t) != nil {
				found[t] = true
			}
		}
	}
	for t := range targets {
		if !found[t] {
			res.Obligations++
			res.Failures = append(res.Failures, "binding: target function "+t+" not found in "+sc.Pkg)
		}
	}
	seen := map[*ssa.Function]*ssa.Function{fn: nil}
	work := []*ssa.Function{fn}
	var hit *ssa.Function
	unknown := 0
	for len(work) > 0 && hit == nil {
		f := work[len(work)-1]
		work = work[:len(work)-1]
		add := func(g *ssa.Function) {
			if g == nil {
				return
			}
			if _, ok := seen[g]; ok {
				return
			}
			seen[g] = f
			if g.Pkg != nil && g.Pkg.Pkg.Path() == modPath+"/"+sc.Pkg && targets[contractName(g)] {
				hit = g
			}
			// bodies outside the module cannot name the module's functions; what they may call back is what
			// they are handed (function arguments and interface values, both followed at the call site)
			root := g
			for root.Parent() != nil {
				root = root.Parent()
			}
			inMod := root.Pkg != nil && strings.HasPrefix(root.Pkg.Pkg.Path(), modPath)
			if root.Pkg == nil && g.Synthetic != "" {
				inMod = true
			}
			if g.Blocks != nil && inMod {
				work = append(work, g)
			}
		}
		for _, b := range f.Blocks {
			for _, in := range b.Instrs {
				if mc, ok := in.(*ssa.MakeClosure); ok {
					add(mc.Fn.(*ssa.Function))
				}
				ci, ok := in.(ssa.CallInstruction)
				if !ok {
					continue
				}
				c := ci.Common()
				if c.IsInvoke() {
					if iface, ok := c.Value.Type().Underlying().(*types.Interface); ok {
						for _, impl := range prog.implementations(iface, c.Method) {
							add(impl)
						}
					}
					continue
				}
				if g := c.StaticCallee(); g != nil {
					add(g)
				} else if g := prog.globalFuncInit(c.Value); g != nil {
					add(g)
				} else if g := closureOrigin(c.Value); g != nil {
					add(g)
				} else if _, isBuiltin := c.Value.(*ssa.Builtin); !isBuiltin {
					unknown++
				}
				// functions passed as arguments may be called by the callee
				for _, a := range c.Args {
					switch av := a.(type) {
					case *ssa.Function:
						add(av)
					case *ssa.MakeClosure:
						add(av.Fn.(*ssa.Function))
					}
				}
			}
		}
	}
	res.Obligations++
	if hit != nil {
		var path []string
		for g := hit; g != nil; g = seen[g] {
			path = append([]string{g.Name()}, path...)
		}
		res.Failures = append(res.Failures, fmt.Sprintf("%s reaches %s: %s", sc.Args["func"], contractName(hit), strings.Join(path, " -> ")))
	} else {
		res.Discharged++
		res.Samples = append(res.Samples, map[string]interface{}{"obligation": fmt.Sprintf("%s#no call path to {%s}", sc.Args["func"], sc.Args["targets"]), "backend": "call-graph reachability", "functions_visited": len(seen)})
	}
	if unknown > 0 {
		res.Trusted = append(res.Trusted, fmt.Sprintf("no-reach %s: %d calls through function values of unknown origin (parameters, struct fields) are assumed not to reach the targets", sc.Args["func"], unknown))
	}
	res.Detail = map[string]interface{}{"visited": len(seen), "unknown_calls": unknown}
	return res
}

// runImportCheck: the package imports <require> and none of <forbid> (e.g. html/template, not text/template,
// for pages that interpolate profile-derived text).
func runImportCheck(prog *Prog, sc StaticCheck) *StaticResult {
	res := &StaticResult{Name: sc.Name, Kind: sc.Kind}
	sp := prog.SSAPkgs[modPath+"/"+sc.Pkg]
	if sp == nil {
		res.Obligations = 1
		res.Failures = append(res.Failures, "binding: package "+sc.Pkg+" not loaded")
		return res
	}
	imps := map[string]bool{}
	for _, ip := range sp.Pkg.Imports() {
		imps[ip.Path()] = true
	}
	for _, r := range strings.Split(sc.Args["require"], ",") {
		if r = strings.TrimSpace(r); r != "" {
			res.Obligations++
			if imps[r] {
				res.Discharged++
			} else {
				res.Failures = append(res.Failures, fmt.Sprintf("package %s does not import %s", sc.Pkg, r))
			}
		}
	}
	for _, f := range strings.Split(sc.Args["forbid"], ",") {
		if f = strings.TrimSpace(f); f != "" {
			res.Obligations++
			if imps[f] {
				res.Failures = append(res.Failures, fmt.Sprintf("package %s imports %s", sc.Pkg, f))
			} else {
				res.Discharged++
			}
		}
	}
	res.Samples = append(res.Samples, map[string]interface{}{"obligation": fmt.Sprintf("%s#imports(require %s; forbid %s)", sc.Pkg, sc.Args["require"], sc.Args["forbid"]), "backend": "go/types"})
	res.Trusted = append(res.Trusted, "html/template escapes interpolated values according to their HTML/JS/URL context")
	return res
}

// errKnownNonNil: block b is only reached through the non-nil branch of a test of v against nil.
func errKnownNonNil(v ssa.Value, b *ssa.BasicBlock) bool {
	for _, hb := range b.Parent().Blocks {
		ifi, ok := hb.Instrs[len(hb.Instrs)-1].(*ssa.If)
		if !ok {
			continue
		}
		bin, ok := ifi.Cond.(*ssa.BinOp)
		if !ok || (bin.Op != token.NEQ && bin.Op != token.EQL) {
			continue
		}
		var other ssa.Value
		if c, ok := bin.Y.(*ssa.Const); ok && c.Value == nil {
			other = bin.X
		} else if c, ok := bin.X.(*ssa.Const); ok && c.Value == nil {
			other = bin.Y
		}
		if other != v {
			continue
		}
		succ := hb.Succs[0]
		if bin.Op == token.EQL {
			succ = hb.Succs[1]
		}
		if len(succ.Preds) == 1 && (succ == b || succ.Dominates(b)) {
			return true
		}
	}
	return false
}

// runCallOrder: in <func>, the calls listed in <order> (callee contract names, comma separated) each occur exactly
// once and each dominates the next: the operations are applied in that order on every path.
func runCallOrder(prog *Prog, sc StaticCheck) *StaticResult {
	res := &StaticResult{Name: sc.Name, Kind: sc.Kind}
	fn := prog.FindFunc(modPath+"/"+sc.Pkg, sc.Args["func"])
	if fn == nil {
		res.Obligations = 1
		res.Failures = append(res.Failures, "binding: function "+sc.Args["func"]+" not found")
		return res
	}
	var order []string
	for _, o := range strings.Split(sc.Args["order"], ",") {
		if o = strings.TrimSpace(o); o != "" {
			order = append(order, o)
		}
	}
	calls := map[string][]*ssa.Call{}
	for _, b := range fn.Blocks {
		for _, in := range b.Instrs {
			if c, ok := in.(*ssa.Call); ok && c.Call.StaticCallee() != nil {
				n := contractName(c.Call.StaticCallee())
				calls[n] = append(calls[n], c)
			}
		}
	}
	dominates := func(a, b *ssa.Call) bool {
		if a.Block() == b.Block() {
			for _, in := range a.Block().Instrs {
				if in == a {
					return true
				}
				if in == b {
					return false
				}
			}
		}
		return a.Block().Dominates(b.Block())
	}
	for _, o := range order {
		res.Obligations++
		if len(calls[o]) != 1 {
			res.Failures = append(res.Failures, fmt.Sprintf("%s calls %s %d times (expected exactly once)", sc.Args["func"], o, len(calls[o])))
			continue
		}
		res.Discharged++
	}
	for i := 0; i+1 < len(order); i++ {
		a, b := calls[order[i]], calls[order[i+1]]
		if len(a) != 1 || len(b) != 1 {
			continue
		}
		res.Obligations++
		if dominates(a[0], b[0]) {
			res.Discharged++
			if len(res.Samples) < 3 {
				res.Samples = append(res.Samples, map[string]interface{}{"obligation": fmt.Sprintf("%s#%s is applied before %s on every path", sc.Args["func"], order[i], order[i+1]), "backend": "dominance"})
			}
		} else {
			res.Failures = append(res.Failures, fmt.Sprintf("%s: %s (%s) does not precede %s (%s) on every path", sc.Args["func"], order[i], posOf(prog, a[0].Pos()), order[i+1], posOf(prog, b[0].Pos())))
		}
	}
	return res
}

// runStructInit: every object of struct type <type> allocated in <func> has each listed field initialised from the
// named parameter of <func> ("field:param" pairs) — no construction site forgets or mixes up a field.
func runStructInit(prog *Prog, sc StaticCheck) *StaticResult {
	res := &StaticResult{Name: sc.Name, Kind: sc.Kind}
	fn := prog.FindFunc(modPath+"/"+sc.Pkg, sc.Args["func"])
	if fn == nil {
		res.Obligations = 1
		res.Failures = append(res.Failures, "binding: function "+sc.Args["func"]+" not found")
		return res
	}
	pairs := map[string]string{}
	for _, fp := range strings.Split(sc.Args["fields"], ",") {
		if i := strings.Index(fp, ":"); i > 0 {
			pairs[strings.TrimSpace(fp[:i])] = strings.TrimSpace(fp[i+1:])
		}
	}
	nalloc := 0
	for _, b := range fn.Blocks {
		for _, in := range b.Instrs {
			a, ok := in.(*ssa.Alloc)
			if !ok || namedOf(a.Type()) != sc.Args["type"] {
				continue
			}
			nalloc++
			got := map[string]ssa.Value{}
			for _, r := range *a.Referrers() {
				if fa, ok := r.(*ssa.FieldAddr); ok {
					for _, rr := range *fa.Referrers() {
						if st, ok := rr.(*ssa.Store); ok && st.Addr == fa {
							f := fieldName(fa)
							got[f[strings.LastIndex(f, ".")+1:]] = st.Val
						}
					}
				}
			}
			for f, p := range pairs {
				res.Obligations++
				v := got[f]
				if par, ok := v.(*ssa.Parameter); ok && par.Name() == p {
					res.Discharged++
					continue
				}
				what := "nothing"
				if v != nil {
					what = v.Name()
				}
				res.Failures = append(res.Failures, fmt.Sprintf("%s: %s literal at %s initialises field %s from %s, not from parameter %s", sc.Args["func"], sc.Args["type"], posOf(prog, a.Pos()), f, what, p))
			}
		}
	}
	if nalloc == 0 {
		res.Obligations++
		res.Failures = append(res.Failures, fmt.Sprintf("%s allocates no %s (stale)", sc.Args["func"], sc.Args["type"]))
	}
	res.Samples = append(res.Samples, map[string]interface{}{"obligation": fmt.Sprintf("%s#every %s literal takes %s", sc.Args["func"], sc.Args["type"], sc.Args["fields"]), "backend": "def-use", "literals": nalloc})
	return res
}

// runForbidCall: <func> (and the closures it defines) contains no direct call of any function in <callees>
// (full names as printed by go/ssa, e.g. "(*encoding/json.Encoder).SetEscapeHTML").
func runForbidCall(prog *Prog, sc StaticCheck) *StaticResult {
	res := &StaticResult{Name: sc.Name, Kind: sc.Kind}
	fn := prog.FindFunc(modPath+"/"+sc.Pkg, sc.Args["func"])
	if fn == nil {
		res.Obligations = 1
		res.Failures = append(res.Failures, "binding: function "+sc.Args["func"]+" not found")
		return res
	}
	bad := map[string]bool{}
	for _, c := range strings.Split(sc.Args["callees"], ",") {
		if c = strings.TrimSpace(c); c != "" {
			bad[c] = true
		}
	}
	must := map[string]bool{}
	for _, c := range strings.Split(sc.Args["require"], ",") {
		if c = strings.TrimSpace(c); c != "" {
			must[c] = false
		}
	}
	res.Obligations++
	found := ""
	for _, f := range append([]*ssa.Function{fn}, fn.AnonFuncs...) {
		for _, b := range f.Blocks {
			for _, in := range b.Instrs {
				if ci, ok := in.(ssa.CallInstruction); ok && ci.Common().StaticCallee() != nil {
					n := ci.Common().StaticCallee().String()
					if bad[n] {
						found = fmt.Sprintf("%s calls %s at %s", sc.Args["func"], n, posOf(prog, in.Pos()))
					}
					if _, ok := must[n]; ok {
						must[n] = true
					}
				}
			}
		}
	}
	if found != "" {
		res.Failures = append(res.Failures, found)
	} else {
		res.Discharged++
	}
	for n, ok := range must {
		res.Obligations++
		if ok {
			res.Discharged++
		} else {
			res.Failures = append(res.Failures, fmt.Sprintf("%s no longer calls %s", sc.Args["func"], n))
		}
	}
	res.Samples = append(res.Samples, map[string]interface{}{"obligation": fmt.Sprintf("%s#calls %s and none of %s", sc.Args["func"], sc.Args["require"], sc.Args["callees"]), "backend": "call scan"})
	return res
}

// runFieldUnset: no function of the module (tests excluded: they are not loaded) ever stores to the listed struct
// fields — not in place, not through a composite literal, not in a fresh object. args: fields = "pkg.Type.Field,..."
// (package name, not path). Used where another obligation treats a field as configuration that no code derives from
// profile data: that exemption is sound only while nothing in the module assigns the field at all.
func runFieldUnset(prog *Prog, sc StaticCheck) *StaticResult {
	res := &StaticResult{Name: sc.Name, Kind: sc.Kind}
	want := map[string]bool{}
	for _, f := range strings.Split(sc.Args["fields"], ",") {
		if f = strings.TrimSpace(f); f != "" {
			want[f] = true
		}
	}
	seenType := map[string]bool{}
	nfn := 0
	for fn := range ssautil.AllFunctions(prog.SSA) {
		if fn.Blocks == nil {
			continue
		}
		pk := fn.Pkg
		for q := fn; pk == nil && q != nil; q = q.Parent() {
			pk = q.Pkg
		}
		if pk == nil || !strings.HasPrefix(pk.Pkg.Path(), modPath) {
			continue
		}
		nfn++
		for _, b := range fn.Blocks {
			for _, in := range b.Instrs {
				fa, ok := in.(*ssa.FieldAddr)
				if !ok {
					continue
				}
				stT := fa.X.Type().Underlying().(*types.Pointer).Elem()
				named, ok := stT.(*types.Named)
				if !ok || named.Obj().Pkg() == nil {
					continue
				}
				st := stT.Underlying().(*types.Struct)
				key := named.Obj().Pkg().Name() + "." + named.Obj().Name() + "." + st.Field(fa.Field).Name()
				seenType[named.Obj().Pkg().Name()+"."+named.Obj().Name()] = true
				if !want[key] {
					continue
				}
				for _, r := range *fa.Referrers() {
					if stw, ok := r.(*ssa.Store); ok && stw.Addr == fa {
						res.Failures = append(res.Failures, fmt.Sprintf("%s assigns %s at %s", fn.String(), key, posOf(prog, stw.Pos())))
					}
				}
			}
		}
	}
	for k := range want {
		res.Obligations++
		tn := k[:strings.LastIndex(k, ".")]
		found := false
		// binding: the type and the field must exist
		for _, p := range prog.SSA.AllPackages() {
			if p.Pkg.Name() != strings.SplitN(tn, ".", 2)[0] {
				continue
			}
			if o := p.Pkg.Scope().Lookup(strings.SplitN(tn, ".", 2)[1]); o != nil {
				if st, ok := o.Type().Underlying().(*types.Struct); ok {
					for i := 0; i < st.NumFields(); i++ {
						if st.Field(i).Name() == k[strings.LastIndex(k, ".")+1:] {
							found = true
						}
					}
				}
			}
		}
		if !found {
			res.Failures = append(res.Failures, "binding: no such field "+k+" (stale clause)")
			continue
		}
		bad := false
		for _, f := range res.Failures {
			if strings.Contains(f, " assigns "+k+" ") {
				bad = true
			}
		}
		if !bad {
			res.Discharged++
		}
	}
	_ = seenType
	res.Samples = append(res.Samples, map[string]interface{}{"obligation": "no function of the module stores to " + sc.Args["fields"], "backend": "static store scan", "functions": nfn})
	return res
}

// runTypeImmutable: objects of a struct type are read-only after construction. No function of the module other than
// the listed constructors stores to ANY field of the type (fields are found by type, so a field added later is
// covered), and no field's address is used for anything but a load — an address handed to a callee (a method with
// pointer receiver on an embedded buffer, sync.Once.Do, Lock) could be written through. args: type = "pkg.Type",
// constructors = comma-separated contract names in sc.Pkg, allow_addr_fields = fields whose address may be passed on.
func runTypeImmutable(prog *Prog, sc StaticCheck) *StaticResult {
	res := &StaticResult{Name: sc.Name, Kind: sc.Kind}
	ctors := map[*ssa.Function]bool{}
	for _, c := range strings.Split(sc.Args["constructors"], ",") {
		if c = strings.TrimSpace(c); c != "" {
			fn := prog.FindFunc(modPath+"/"+sc.Pkg, c)
			if fn == nil {
				res.Obligations++
				res.Failures = append(res.Failures, "binding: constructor "+c+" not found")
				continue
			}
			ctors[fn] = true
		}
	}
	allowAddr := map[string]bool{}
	for _, f := range strings.Split(sc.Args["allow_addr_fields"], ",") {
		if f = strings.TrimSpace(f); f != "" {
			allowAddr[f] = true
		}
	}
	want := sc.Args["type"]
	found := false
	nfn := 0
	for fn := range ssautil.AllFunctions(prog.SSA) {
		if fn.Blocks == nil {
			continue
		}
		pk := fn.Pkg
		for q := fn; pk == nil && q != nil; q = q.Parent() {
			pk = q.Pkg
		}
		if pk == nil || !strings.HasPrefix(pk.Pkg.Path(), modPath) {
			continue
		}
		top := fn
		for top.Parent() != nil {
			top = top.Parent()
		}
		nfn++
		for _, b := range fn.Blocks {
			for _, in := range b.Instrs {
				fa, ok := in.(*ssa.FieldAddr)
				if !ok {
					continue
				}
				stT := fa.X.Type().Underlying().(*types.Pointer).Elem()
				named, ok := stT.(*types.Named)
				if !ok || named.Obj().Pkg() == nil || named.Obj().Pkg().Name()+"."+named.Obj().Name() != want {
					continue
				}
				found = true
				if ctors[top] {
					continue
				}
				fname := stT.Underlying().(*types.Struct).Field(fa.Field).Name()
				res.Obligations++
				bad := ""
				for _, r := range *fa.Referrers() {
					switch u := r.(type) {
					case *ssa.UnOp:
						// load
					case *ssa.DebugRef:
					case *ssa.Store:
						if u.Addr == fa {
							bad = "stores to"
						} else {
							bad = "stores the address of"
						}
					default:
						if !allowAddr[fname] {
							bad = "passes on the address of"
						}
					}
				}
				if bad != "" {
					res.Failures = append(res.Failures, fmt.Sprintf("%s %s field %s of %s at %s (objects of this type are read-only after construction)", fn.String(), bad, fname, want, posOf(prog, fa.Pos())))
				} else {
					res.Discharged++
				}
			}
		}
	}
	if !found {
		res.Obligations++
		res.Failures = append(res.Failures, "binding: no field access of type "+want+" found (stale clause)")
	}
	res.Samples = append(res.Samples, map[string]interface{}{"obligation": "fields of " + want + " are only loaded outside " + sc.Args["constructors"], "backend": "static def-use scan", "functions": nfn})
	return res
}

// runForbidMapRange: the listed functions (and their closures) contain no range over a map: the order in which they
// produce output cannot depend on map iteration order. args: funcs = comma-separated contract names in sc.Pkg.
func runForbidMapRange(prog *Prog, sc StaticCheck) *StaticResult {
	res := &StaticResult{Name: sc.Name, Kind: sc.Kind}
	for _, name := range strings.Split(sc.Args["funcs"], ",") {
		name = strings.TrimSpace(name)
		if name == "" {
			continue
		}
		res.Obligations++
		fn := prog.FindFunc(modPath+"/"+sc.Pkg, name)
		if fn == nil {
			res.Failures = append(res.Failures, "binding: function "+name+" not found")
			continue
		}
		bad := ""
		var rec func(f *ssa.Function)
		rec = func(f *ssa.Function) {
			for _, b := range f.Blocks {
				for _, in := range b.Instrs {
					if rg, ok := in.(*ssa.Range); ok {
						if _, isMap := rg.X.Type().Underlying().(*types.Map); isMap {
							bad = posOf(prog, rg.Pos())
						}
					}
				}
			}
			for _, a := range f.AnonFuncs {
				rec(a)
			}
		}
		rec(fn)
		if bad != "" {
			res.Failures = append(res.Failures, fmt.Sprintf("%s ranges over a map at %s: the order of what it produces may depend on map iteration order", name, bad))
		} else {
			res.Discharged++
		}
	}
	res.Samples = append(res.Samples, map[string]interface{}{"obligation": "no range over a map in " + sc.Args["funcs"], "backend": "static scan"})
	return res
}

// runGlobalState: inventory of mutable package-level state. In the listed packages, the only package-level variables
// that any function other than a package initialiser writes — by a store, by updating or deleting from the map it
// holds, by appending through it, or by handing its address to a call — are the ones on the allow list (each of them
// is covered by a lock or single-assignment argument of its own elsewhere). A new cache or memo table introduced at
// package level therefore fails this obligation until it is listed and argued for. args: pkgs, allow ("pkg.name").
func runGlobalState(prog *Prog, sc StaticCheck) *StaticResult {
	res := &StaticResult{Name: sc.Name, Kind: sc.Kind}
	pkgs := map[string]bool{}
	for _, p := range strings.Split(sc.Args["pkgs"], ",") {
		if p = strings.TrimSpace(p); p != "" {
			pkgs[modPath+"/"+p] = true
		}
	}
	allow := map[string]bool{}
	for _, a := range strings.Split(sc.Args["allow"], ",") {
		if a = strings.TrimSpace(a); a != "" {
			allow[a] = true
		}
	}
	written := map[string]string{}
	note := func(g *ssa.Global, how string, fn *ssa.Function, pos token.Pos) {
		if g.Pkg == nil || !pkgs[g.Pkg.Pkg.Path()] {
			return
		}
		key := g.Pkg.Pkg.Name() + "." + g.Name()
		if _, ok := written[key]; !ok {
			written[key] = fmt.Sprintf("%s by %s at %s", how, fn.String(), posOf(prog, pos))
		}
	}
	syncType := func(t types.Type) bool {
		s := t.String()
		return strings.HasPrefix(s, "sync.") || strings.HasPrefix(s, "*sync.") || strings.HasPrefix(s, "sync/atomic.") || strings.HasPrefix(s, "*sync/atomic.")
	}
	nfn := 0
	for fn := range ssautil.AllFunctions(prog.SSA) {
		if fn.Blocks == nil {
			continue
		}
		pk := fn.Pkg
		for q := fn; pk == nil && q != nil; q = q.Parent() {
			pk = q.Pkg
		}
		if pk == nil || !strings.HasPrefix(pk.Pkg.Path(), modPath) {
			continue
		}
		top := fn
		for top.Parent() != nil {
			top = top.Parent()
		}
		if top.Name() == "init" || strings.HasPrefix(top.Name(), "init#") {
			continue
		}
		nfn++
		for _, b := range fn.Blocks {
			for _, in := range b.Instrs {
				switch x := in.(type) {
				case *ssa.Store:
					if g, ok := x.Addr.(*ssa.Global); ok {
						note(g, "stored to", fn, x.Pos())
					}
					// store through a field/element address rooted at a global
					root := x.Addr
					for depth := 0; depth < 8; depth++ {
						switch a := root.(type) {
						case *ssa.FieldAddr:
							root = a.X
							continue
						case *ssa.IndexAddr:
							root = a.X
							continue
						}
						break
					}
					if g, ok := root.(*ssa.Global); ok && root != x.Addr {
						note(g, "written through", fn, x.Pos())
					}
				case *ssa.MapUpdate:
					if u, ok := x.Map.(*ssa.UnOp); ok {
						if g, ok := u.X.(*ssa.Global); ok {
							note(g, "map updated", fn, x.Pos())
						}
					}
				case ssa.CallInstruction:
					c := x.Common()
					if bi, ok := c.Value.(*ssa.Builtin); ok && (bi.Name() == "delete" || bi.Name() == "clear") && len(c.Args) > 0 {
						if u, ok := c.Args[0].(*ssa.UnOp); ok {
							if g, ok := u.X.(*ssa.Global); ok {
								note(g, "map entries removed", fn, in.Pos())
							}
						}
					}
					for _, a := range c.Args {
						if g, ok := a.(*ssa.Global); ok && !syncType(g.Type().Underlying().(*types.Pointer).Elem()) {
							note(g, "address passed to a call", fn, in.Pos())
						}
					}
				}
			}
		}
	}
	for key, how := range written {
		res.Obligations++
		if allow[key] {
			res.Discharged++
			continue
		}
		res.Failures = append(res.Failures, fmt.Sprintf("package variable %s is %s: mutable package-level state that is not on the allow list", key, how))
	}
	for a := range allow {
		if _, ok := written[a]; !ok {
			res.Obligations++
			res.Failures = append(res.Failures, "binding: allow-listed variable "+a+" is not written anywhere any more (stale allow list)")
		}
	}
	if len(written) == 0 && len(allow) == 0 {
		res.Obligations++
		res.Discharged++
	}
	var ws []string
	for k := range written {
		ws = append(ws, k)
	}
	sort.Strings(ws)
	res.Samples = append(res.Samples, map[string]interface{}{"obligation": "package variables written outside initialisers in " + sc.Args["pkgs"] + " are exactly the allow-listed ones", "backend": "static store scan", "functions": nfn, "written": ws})
	return res
}

// runStoreOrigin: in the function, every store through a pointer obtained by a type assertion (or type-switch case) to
// *<elem> stores exactly the named parameter — the value is neither trimmed, re-cased nor rebuilt on the way — and at
// least one such store exists. args: func, param, elem (e.g. string).
func runStoreOrigin(prog *Prog, sc StaticCheck) *StaticResult {
	res := &StaticResult{Name: sc.Name, Kind: sc.Kind}
	fn := prog.FindFunc(modPath+"/"+sc.Pkg, sc.Args["func"])
	if fn == nil {
		res.Obligations = 1
		res.Failures = append(res.Failures, "binding: function "+sc.Args["func"]+" not found")
		return res
	}
	var param *ssa.Parameter
	for _, p := range fn.Params {
		if p.Name() == sc.Args["param"] {
			param = p
		}
	}
	if param == nil {
		res.Obligations = 1
		res.Failures = append(res.Failures, "binding: parameter "+sc.Args["param"]+" not found")
		return res
	}
	fromAssert := func(v ssa.Value) bool {
		for depth := 0; depth < 4; depth++ {
			switch x := v.(type) {
			case *ssa.TypeAssert:
				return true
			case *ssa.Extract:
				v = x.Tuple
				continue
			case *ssa.Phi:
				for _, e := range x.Edges {
					if _, ok := e.(*ssa.Const); !ok {
						v = e
					}
				}
				continue
			}
			return false
		}
		return false
	}
	n := 0
	for _, b := range fn.Blocks {
		for _, in := range b.Instrs {
			st, ok := in.(*ssa.Store)
			if !ok {
				continue
			}
			pt, ok := st.Addr.Type().Underlying().(*types.Pointer)
			if !ok || pt.Elem().String() != sc.Args["elem"] || !fromAssert(st.Addr) {
				continue
			}
			n++
			res.Obligations++
			if st.Val == param {
				res.Discharged++
			} else {
				res.Failures = append(res.Failures, fmt.Sprintf("%s stores a value other than its parameter %s into the *%s field at %s (the value is transformed on the way)", sc.Args["func"], sc.Args["param"], sc.Args["elem"], posOf(prog, st.Pos())))
			}
		}
	}
	if n == 0 {
		res.Obligations++
		res.Failures = append(res.Failures, fmt.Sprintf("binding: %s has no store through a type-asserted *%s (stale obligation)", sc.Args["func"], sc.Args["elem"]))
	}
	res.Samples = append(res.Samples, map[string]interface{}{"obligation": fmt.Sprintf("%s#every *%s field store writes parameter %s itself", sc.Args["func"], sc.Args["elem"], sc.Args["param"]), "backend": "SSA def-use", "stores": n})
	return res
}
